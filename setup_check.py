#!/venv/bin/python
"""MANIFEST.setup_cmd: nothing to build (pure Python, standard library only); verify that
the interpreter, the repository tree and the scratch area are usable offline."""
import os, sys, tempfile
sys.path.insert(0, os.path.dirname(os.path.abspath(__file__)))
repo = os.environ.get("VERIF_REPO", "/repo")
sys.path.insert(0, os.path.join(repo, "lib"))
import debian.debian_support, debian.arfile, debian.debfile, debian.debtags, debian.changelog  # noqa
import debian._deb822_repro  # noqa
import simkit.runner  # noqa
base = "/dev/shm" if os.access("/dev/shm", os.W_OK) else tempfile.gettempdir()
d = tempfile.mkdtemp(prefix="verif-setup-", dir=base)
os.rmdir(d)
for sub in ("evidence", "replays"):
    os.makedirs(os.path.join(os.path.dirname(os.path.abspath(__file__)), sub), exist_ok=True)
print("setup ok: python %s, repo %s, scratch %s" % (sys.version.split()[0], repo, base))
