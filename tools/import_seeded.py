#!/venv/bin/python
"""Import sub-agent results: tools/import_seeded.py C06 [/tmp/seed-C06/RESULT]
For every mN: confirm in a scratch copy of /repo that (1) the patch applies, (2) the upstream
suite still passes with the same count, (3) demo.py passes without and fails with the change;
keep it as /verif/seeded/<ID>-mN/{patch.diff,demo.py,notes.md,meta.json}."""
import json, os, re, shutil, subprocess, sys, tempfile
HERE = os.path.dirname(os.path.dirname(os.path.abspath(__file__)))
PY = "/venv/bin/python"

def run(cmd, cwd=None, env=None):
    e = dict(os.environ); e.update(env or {})
    p = subprocess.run(cmd, cwd=cwd, env=e, capture_output=True, text=True, timeout=1800)
    return p.returncode, p.stdout + p.stderr

def scratch():
    d = tempfile.mkdtemp(prefix="verif-seed-", dir="/dev/shm")
    shutil.copytree("/repo/lib", os.path.join(d, "lib"), ignore=shutil.ignore_patterns("__pycache__", "*.egg-info"))
    shutil.copy("/repo/pytest.ini", d)
    return d

def suite(d):
    rc, out = run([PY, "-m", "pytest", "-q", "-p", "no:cacheprovider", "--timeout=900", "lib/debian/tests"],
                  cwd=d, env={"PYTHONPATH": os.path.join(d, "lib"), "PYTHONDONTWRITEBYTECODE": "1"})
    m = re.search(r"(\d+) passed", out)
    return rc == 0, int(m.group(1)) if m else 0

def main():
    pid = sys.argv[1]
    src = sys.argv[2] if len(sys.argv) > 2 else "/tmp/seed-%s/RESULT" % pid
    for m in sorted(os.listdir(src)):
        mdir = os.path.join(src, m)
        if not os.path.exists(os.path.join(mdir, "patch.diff")):
            continue
        name = "%s-%s" % (pid, m if len(sys.argv) < 4 else m.replace("m", sys.argv[3]))
        clean, mutant = scratch(), scratch()
        try:
            rc, out = run(["patch", "-p1", "-s", "-i", os.path.join(mdir, "patch.diff")], cwd=mutant)
            if rc:
                print(name, "REJECTED: patch does not apply", out[-200:]); continue
            ok, n = suite(mutant)
            if not ok or n != 234:
                print(name, "REJECTED: upstream suite %s passed=%d" % (ok, n)); continue
            r0, o0 = run([PY, os.path.join(mdir, "demo.py")], env={"PYTHONPATH": os.path.join(clean, "lib")}, cwd=mdir)
            r1, o1 = run([PY, os.path.join(mdir, "demo.py")], env={"PYTHONPATH": os.path.join(mutant, "lib")}, cwd=mdir)
            if r0 != 0 or r1 == 0:
                print(name, "REJECTED: demo clean=%d mutant=%d" % (r0, r1), o0[-200:], o1[-200:]); continue
            dst = os.path.join(HERE, "seeded", name)
            os.makedirs(dst, exist_ok=True)
            for f in ("patch.diff", "demo.py", "notes.md"):
                if os.path.exists(os.path.join(mdir, f)):
                    shutil.copy(os.path.join(mdir, f), dst)
            notes = open(os.path.join(dst, "notes.md")).read() if os.path.exists(os.path.join(dst, "notes.md")) else ""
            meta = {"property": pid, "origin": "independent sub-agent given only the property text and a scratch worktree",
                    "needs_to_manifest": notes.strip()[:1500],
                    "confirmed": {"patch_applies_to": subprocess.check_output(["git", "-C", "/repo", "rev-parse", "--short", "HEAD"]).decode().strip(),
                                  "upstream_suite_passed": n, "demo_exit_clean": r0, "demo_exit_changed": r1},
                    "ran": ["patch -p1 < patch.diff in a scratch copy of /repo/lib", "pytest lib/debian/tests (234 passed)",
                            "demo.py against clean and changed copy", "selftest.py seeded %s" % name]}
            json.dump(meta, open(os.path.join(dst, "meta.json"), "w"), indent=1)
            print(name, "KEPT")
        finally:
            shutil.rmtree(clean, True); shutil.rmtree(mutant, True)

if __name__ == "__main__":
    main()
