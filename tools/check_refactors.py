#!/venv/bin/python
"""False-alarm test: tools/check_refactors.py [name ...]
For every /verif/refactors/<ID>-rN/patch.diff (behaviour-preserving re-implementations written
by independent sub-agents) apply it to a scratch copy of /repo/lib, confirm the upstream suite
passes, and run the property's quick check against it: the check must stay silent (exit 0).
Results -> selftest_results/refactors.json"""
import json, os, re, shutil, subprocess, sys, tempfile
HERE = os.path.dirname(os.path.dirname(os.path.abspath(__file__)))
sys.path.insert(0, HERE)
from selftest import make_scratch_repo, upstream_suite, run, PY, save

def main():
    base = os.path.join(HERE, "refactors")
    names = sys.argv[1:] or sorted(os.listdir(base))
    res = []
    for n in names:
        pid = n.split("-")[0]
        patch = os.path.join(base, n, "patch.diff")
        d = make_scratch_repo()
        info = {"name": n, "property": pid}
        try:
            rc, out, err = run(["patch", "-p1", "-s", "-i", patch], cwd=d)
            if rc:
                info["error"] = "patch does not apply"
            else:
                ok, npass, tail = upstream_suite(d)
                info["upstream_suite_passes"] = ok
                info["upstream_passed"] = npass
                rc, out, err = run([PY, "run_check.py", pid, "--tier", "quick", "--no-evidence"],
                                   env={"VERIF_REPO": d})
                info["quick_exit"] = rc
                v = re.search(r"violation in run (\d+) .*?: (\{.*)", out)
                if v:
                    info["violation"] = v.group(2)[:1500]
                if rc == 2:
                    info["stderr"] = err[-1500:]
                m = re.search(r"VIOLATION property=%s replay=(\S+)" % pid, out)
                if m:
                    keep = os.path.join(base, n, "replay.json")
                    shutil.copy(m.group(1), keep)
                    info["replay"] = os.path.relpath(keep, HERE)
        finally:
            shutil.rmtree(d, True)
        res.append(info)
        print("%-10s suite=%s quick_exit=%s %s" % (n, info.get("upstream_suite_passes"),
              info.get("quick_exit"), info.get("violation", info.get("error", ""))[:300]))
    path = os.path.join(HERE, "selftest_results", "refactors.json")
    old = []
    if os.path.exists(path):
        old = [r for r in json.load(open(path)) if r["name"] not in names]
    save("refactors", sorted(old + res, key=lambda r: r["name"]))

if __name__ == "__main__":
    main()
