#!/venv/bin/python
"""Prints the markdown tables of DESIGN.md section 9 from selftest_results/{seeded,sensitivity}.json."""
import json, os, re
HERE = os.path.dirname(os.path.dirname(os.path.abspath(__file__)))

def first_line(path):
    if not os.path.exists(path):
        return ""
    for l in open(path):
        l = l.strip().lstrip("#").strip()
        if l:
            return re.sub(r"\s+", " ", l)[:150]
    return ""

def row(name, info, what):
    tier = info.get("caught")
    d = info.get(tier, {}) if tier else {}
    return "| %s | %s | %s | %s | %s | %s |" % (
        name, info.get("property", ""), what.replace("|", "/"),
        tier or "**missed**", d.get("first_run", ""), ("%s @ %s" % (d.get("clause", ""), d.get("op", ""))) if d else "")

def main():
    seeded = json.load(open(os.path.join(HERE, "selftest_results", "seeded.json")))
    print("| seeded change | property | what it is (first line of its notes) | caught at tier | first failing run | violated clause @ operation |")
    print("|---|---|---|---|---|---|")
    for r in seeded:
        print(row(r["name"], r, first_line(os.path.join(HERE, "seeded", r["name"], "notes.md"))))
    print()
    why = json.load(open(os.path.join(HERE, "mutants", "README.json")))
    sens = json.load(open(os.path.join(HERE, "selftest_results", "sensitivity.json")))
    print("| hand-written mutant | property | what it is | caught at tier | first failing run | violated clause @ operation |")
    print("|---|---|---|---|---|---|")
    for r in sens:
        n = os.path.basename(r["patch"])[:-6]
        print(row(n, r, why.get(n, "")))

if __name__ == "__main__":
    main()
