#!/venv/bin/python
"""Self-tests of the verification machinery (none of them gates a check).

  selftest.py determinism [ID ...]   same seeds, different worker counts / hash seeds /
                                     interpreters -> identical per-run event-log digests
  selftest.py sensitivity [ID ...]   every /verif/mutants/<ID>-*.patch applied to a scratch
                                     copy of the repo must be caught (exit 1 + VIOLATION +
                                     replay that reproduces), and the upstream suite must
                                     still pass on it
  selftest.py seeded [name ...]      same, for /verif/seeded/<name>/patch.diff
  selftest.py fidelity               stubs vs. the real thing (C19 file://, C06 /usr/bin/ar)
Results are written to /verif/selftest_results/<kind>.json
"""
import glob
import json
import os
import re
import shutil
import subprocess
import sys
import tempfile
import time

HERE = os.path.dirname(os.path.abspath(__file__))
PY = sys.executable
REPO = os.environ.get("VERIF_REPO", "/repo")
CLAIMED = ["C05", "C06", "C07", "C09", "C10", "C11", "C14", "C15", "C19", "C20"]


def scratch_base():
    return "/dev/shm" if os.access("/dev/shm", os.W_OK) else tempfile.gettempdir()


def run(cmd, env=None, timeout=3600, cwd=HERE):
    e = dict(os.environ)
    e.update(env or {})
    p = subprocess.run(cmd, env=e, cwd=cwd, capture_output=True, text=True, timeout=timeout)
    return p.returncode, p.stdout, p.stderr


def save(kind, data):
    d = os.path.join(HERE, "selftest_results")
    os.makedirs(d, exist_ok=True)
    with open(os.path.join(d, kind + ".json"), "w") as f:
        json.dump(data, f, indent=1, sort_keys=True)
        f.write("\n")


def available(ids):
    return [i for i in ids if os.path.exists(os.path.join(HERE, "props", i.lower() + ".py"))]


# --------------------------------------------------------------------------- determinism

def determinism(ids, runs=400):
    ids = available(ids or CLAIMED)
    res = {}
    ok = True
    for pid in ids:
        digs = []
        configs = [("0", 16), ("0", 1), ("12345", 16), ("1", 5)]
        for hs, jobs in configs:
            fd, tmp = tempfile.mkstemp(prefix="verif-dig-")
            os.close(fd)
            rc, out, err = run([PY, "run_check.py", pid, "--tier", "quick", "--runs", str(runs),
                                "--jobs", str(jobs), "--digests", tmp, "--no-evidence",
                                "--no-hashseed-sweep"],
                               env={"PYTHONHASHSEED": hs, "PYTHONUTF8": "1"})
            with open(tmp) as f:
                digs.append(f.read())
            os.unlink(tmp)
            if rc == 2:
                print("%s: harness error under hashseed=%s jobs=%d: %s" % (pid, hs, jobs, err[-400:]))
                ok = False
        same = all(d == digs[0] for d in digs) and digs[0].count("\n") == runs
        res[pid] = {"runs": runs, "configs": ["hashseed=%s jobs=%d" % c for c in configs],
                    "identical": same}
        print("%s determinism over %d runs x %d configurations: %s" %
              (pid, runs, len(configs), "identical" if same else "DIVERGED"))
        ok = ok and same
    save("determinism", res)
    return 0 if ok else 1


# --------------------------------------------------------------------------- sensitivity

def make_scratch_repo():
    d = tempfile.mkdtemp(prefix="verif-mutant-", dir=scratch_base())
    shutil.copytree(os.path.join(REPO, "lib"), os.path.join(d, "lib"),
                    ignore=shutil.ignore_patterns("__pycache__", "*.egg-info"))
    for f in ("pytest.ini", "setup.py"):
        if os.path.exists(os.path.join(REPO, f)):
            shutil.copy(os.path.join(REPO, f), d)
    return d


def upstream_suite(d):
    rc, out, err = run([PY, "-m", "pytest", "-q", "-p", "no:cacheprovider", "--timeout=900",
                        "-x", "lib/debian/tests"], cwd=d,
                       env={"PYTHONPATH": os.path.join(d, "lib"), "PYTHONDONTWRITEBYTECODE": "1"})
    m = re.search(r"(\d+) passed", out)
    return rc == 0, (m.group(1) if m else "?"), out[-600:]


def check_mutant(pid, patch, tiers=("quick", "thorough"), thorough_wall=240):
    d = make_scratch_repo()
    info = {"patch": os.path.relpath(patch, HERE), "property": pid}
    try:
        rc, out, err = run(["patch", "-p1", "-s", "-i", patch], cwd=d)
        if rc != 0:
            info["error"] = "patch does not apply: " + (out + err)[-300:]
            return info
        ok, npass, tail = upstream_suite(d)
        info["upstream_suite_passes"] = ok
        info["upstream_passed"] = npass
        if not ok:
            info["upstream_tail"] = tail
        for tier in tiers:
            t0 = time.time()
            cmd = [PY, "run_check.py", pid, "--tier", tier, "--no-evidence",
                   "--no-hashseed-sweep"]
            if tier == "thorough":
                cmd += ["--wall", str(thorough_wall)]
            rc, out, err = run(cmd, env={"VERIF_REPO": d})
            info[tier] = {"exit": rc, "wall_s": round(time.time() - t0, 1)}
            m = re.search(r"VIOLATION property=%s replay=(\S+)" % pid, out)
            v = re.search(r"violation in run (\d+) .*?: (\{.*)", out)
            if v:
                info[tier]["first_run"] = int(v.group(1))
                try:
                    vd = json.loads(v.group(2))
                    info[tier]["clause"] = vd["clause"]
                    info[tier]["op"] = vd["op"]
                except ValueError:
                    info[tier]["violation"] = v.group(2)[:200]
            if rc == 2:
                info[tier]["stderr"] = err[-500:]
            if rc == 1 and m:
                # replay against the mutant (must fail) and against the real repo (must pass)
                r1, o1, _ = run([PY, "run_check.py", pid, "--replay", m.group(1),
                                 "--no-evidence"], env={"VERIF_REPO": d})
                r2, o2, _ = run([PY, "run_check.py", pid, "--replay", m.group(1),
                                 "--no-evidence"])
                info[tier]["replay_on_mutant"] = r1
                info[tier]["replay_on_repo"] = r2
                info["caught"] = tier
                try:
                    os.unlink(m.group(1))
                except OSError:
                    pass
                break
        info.setdefault("caught", None)
        return info
    finally:
        shutil.rmtree(d, True)


def sensitivity(ids):
    ids = available(ids or CLAIMED)
    res = []
    for pid in ids:
        for patch in sorted(glob.glob(os.path.join(HERE, "mutants", pid + "-*.patch"))):
            info = check_mutant(pid, patch)
            res.append(info)
            print("%-48s suite=%s caught=%s %s" % (
                os.path.basename(patch), info.get("upstream_suite_passes"), info.get("caught"),
                json.dumps({k: info[k] for k in ("quick", "thorough", "error") if k in info})[:300]))
    old = []
    path = os.path.join(HERE, "selftest_results", "sensitivity.json")
    if os.path.exists(path):
        with open(path) as f:
            old = [r for r in json.load(f) if r.get("property") not in ids]
    save("sensitivity", sorted(old + res, key=lambda r: r["patch"]))
    return 0 if all(r.get("caught") for r in res) else 1


def seeded(names):
    base = os.path.join(HERE, "seeded")
    names = names or sorted(n for n in os.listdir(base)
                            if os.path.exists(os.path.join(base, n, "patch.diff")))
    res = []
    for n in names:
        with open(os.path.join(base, n, "meta.json")) as f:
            meta = json.load(f)
        info = check_mutant(meta["property"], os.path.join(base, n, "patch.diff"))
        info["name"] = n
        res.append(info)
        print("%-40s %s suite=%s caught=%s %s" % (
            n, meta["property"], info.get("upstream_suite_passes"), info.get("caught"),
            json.dumps({k: info[k] for k in ("quick", "thorough", "error") if k in info})[:300]))
    old = []
    path = os.path.join(HERE, "selftest_results", "seeded.json")
    if os.path.exists(path):
        with open(path) as f:
            old = [r for r in json.load(f) if r.get("name") not in names]
    save("seeded", sorted(old + res, key=lambda r: r["name"]))
    return 0 if all(r.get("caught") for r in res) else 1


def main():
    if len(sys.argv) < 2:
        print(__doc__)
        return 2
    kind, rest = sys.argv[1], sys.argv[2:]
    if kind == "determinism":
        return determinism(rest)
    if kind == "sensitivity":
        return sensitivity(rest)
    if kind == "seeded":
        return seeded(rest)
    if kind == "fidelity":
        sys.path.insert(0, HERE)
        import fidelity
        return fidelity.main(rest)
    print(__doc__)
    return 2


if __name__ == "__main__":
    sys.exit(main())
