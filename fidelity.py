"""Stub fidelity (selftest.py fidelity): do the simulator's stand-ins misrepresent the real
thing?

 C19  a slice of worlds x payload/index faults is executed twice: through the sim: transport
      stub and through urllib's own file:// handler over a real directory; exception class
      and final local state must agree.
 C19  the independent ed-script generator is cross-checked against `diff -e`.
 C06  archives from the independent ar writer are listed/extracted by /usr/bin/ar, and
      archives written by /usr/bin/ar are read by the library exactly like ours.
 C07  packages from the independent assembler are accepted by dpkg-deb (fields, file list).
"""
import json
import os
import shutil
import subprocess
import sys
import tempfile

HERE = os.path.dirname(os.path.abspath(__file__))
sys.path.insert(0, HERE)
sys.path.insert(0, os.path.join(os.environ.get("VERIF_REPO", "/repo"), "lib"))


def c19_transport(n=150):
    from props import c19
    bad = []
    execs = 0
    for run in range(n):
        case = c19.generate(0, run, "quick")
        w = case["world"]
        base = c19.run_one(w, [], judge=False)
        faults = [[]] + [[f] for f in c19.enumerate_faults(w, base)
                         if f["site"] != "fs" and f["kind"] != "abort"]
        for fl in faults:
            a = c19.run_one(w, fl, transport="sim", judge=False)
            b = c19.run_one(w, fl, transport="file", judge=False)
            execs += 2
            ka = (a["exc"], a["after"], a["ret_ok"], a["leftovers"], a["tmp_left"])
            kb = (b["exc"], b["after"], b["ret_ok"], b["leftovers"], b["tmp_left"])
            if ka != kb:
                bad.append({"run": run, "faults": fl, "sim": ka, "file": kb})
    return {"worlds": n, "executions": execs, "disagreements": bad[:5],
            "n_disagreements": len(bad)}


def c19_diff(n=300):
    from props import c19
    import debian.debian_support as ds
    if not shutil.which("diff"):
        return {"skipped": "no /usr/bin/diff"}
    d = tempfile.mkdtemp(prefix="verif-fid-")
    bad = 0
    pairs = 0
    try:
        for run in range(n):
            vs = c19.generate(0, run, "quick")["world"]["versions"]
            for a, b in zip(vs, vs[1:]):
                pairs += 1
                with open(os.path.join(d, "a"), "w", encoding="utf-8", newline="\n") as f:
                    f.write(c19._text(a))
                with open(os.path.join(d, "b"), "w", encoding="utf-8", newline="\n") as f:
                    f.write(c19._text(b))
                p = subprocess.run(["diff", "-e", os.path.join(d, "a"), os.path.join(d, "b")],
                                   capture_output=True)
                # lines end at "\n" only (form feeds etc. are ordinary characters of a line)
                for script in ([l + "\n" for l in p.stdout.decode("utf-8").split("\n")[:-1]],
                               [l + "\n" for l in c19.ed_script(a, b)]):
                    lines = [l + "\n" for l in a]
                    ds.patch_lines(lines, ds.patches_from_ed_script(script))
                    if lines != [l + "\n" for l in b]:
                        bad += 1
    finally:
        shutil.rmtree(d, True)
    return {"version_pairs": pairs, "scripts_not_reproducing_target": bad}


def c06_ar(n=200):
    from props import c06
    from simkit import arwriter
    from simkit.core import dec_bytes
    from debian import arfile
    if not shutil.which("ar"):
        return {"skipped": "no /usr/bin/ar"}
    d = tempfile.mkdtemp(prefix="verif-fid-")
    bad = []
    archives = 0
    try:
        for run in range(n):
            ms = c06.generate(0, run, "quick")["world"]["members"]
            seen = set()
            uniq = []
            for m in ms:
                if m["name"] in seen or m["name"].startswith("-") or m["name"] in (".", ".."):
                    continue
                if len(m["name"]) > 15 or not m["name"].isascii() or not m["name"].isprintable() \
                        or m["name"] != m["name"].strip():
                    # GNU ar cannot show these: it drops the 16th character of a name that
                    # fills the field, and its listing is locale dependent for the rest
                    continue
                seen.add(m["name"])
                uniq.append(m)
            if not uniq:
                continue
            archives += 1
            datas = [dec_bytes(m["data"]) for m in uniq]
            mine = os.path.join(d, "mine.ar")
            with open(mine, "wb") as f:
                f.write(arwriter.build([dict(m, data=x) for m, x in zip(uniq, datas)]))
            # real ar lists and extracts ours
            t = subprocess.run(["ar", "t", mine], capture_output=True)
            if t.returncode or t.stdout.decode().split("\n")[:-1] != [m["name"] for m in uniq]:
                bad.append({"run": run, "what": "ar t", "out": t.stdout.decode()[:200],
                            "err": t.stderr.decode()[:200]})
                continue
            for m, x in zip(uniq, datas):
                p = subprocess.run(["ar", "p", mine, m["name"]], capture_output=True)
                if p.stdout != x:
                    bad.append({"run": run, "what": "ar p " + m["name"]})
            # the library reads an archive written by real ar like ours
            work = os.path.join(d, "w")
            shutil.rmtree(work, True)
            os.mkdir(work)
            for m, x in zip(uniq, datas):
                with open(os.path.join(work, m["name"]), "wb") as f:
                    f.write(x)
            theirs = os.path.join(d, "theirs.ar")
            if os.path.exists(theirs):
                os.unlink(theirs)
            subprocess.run(["ar", "qc", theirs] + [m["name"] for m in uniq], cwd=work, check=True)
            a = arfile.ArFile(filename=theirs)
            got = [(m.name, m.size, m.read()) for m in a.getmembers()]
            for m in a.getmembers():
                m.close()
            if got != [(m["name"], len(x), x) for m, x in zip(uniq, datas)]:
                bad.append({"run": run, "what": "library on real ar archive"})
    finally:
        shutil.rmtree(d, True)
    return {"archives": archives, "n_disagreements": len(bad), "disagreements": bad[:5]}


def c07_dpkg(n=60):
    from props import c07
    if not shutil.which("dpkg-deb"):
        return {"skipped": "no dpkg-deb"}
    d = tempfile.mkdtemp(prefix="verif-fid-")
    bad = []
    pk = 0
    try:
        for run in range(n * 60):
            w = c07.generate(0, run, "quick")["world"]
            if w["defect"] or w["ccomp"] in ("lzma", "bz2") or w["dcomp"] == "lzma" \
                    or w["order"][0] != 0 or w["order"] != [0, 1, 2]:
                continue      # dpkg itself restricts compressions / member order
            if pk >= n:
                break
            pk += 1
            blob, model = c07.build(w)
            path = os.path.join(d, "p.deb")
            with open(path, "wb") as f:
                f.write(blob)
            p = subprocess.run(["dpkg-deb", "-f", path, "Package", "Version"],
                               capture_output=True, text=True)
            want = dict(w["fields"])
            if p.returncode or ("Package: " + want["Package"]) not in p.stdout:
                bad.append({"run": run, "what": "dpkg-deb -f", "err": p.stderr[:300]})
                continue
            c = subprocess.run(["dpkg-deb", "--fsys-tarfile", path], capture_output=True)
            t = subprocess.run(["tar", "--quoting-style=literal", "-t"], input=c.stdout,
                               capture_output=True)
            names = sorted(x.rstrip("/") for x in t.stdout.decode("utf-8", "replace").split("\n") if x)
            wantn = sorted(["."] + ["./" + x for x in model["dirs"]] + ["./" + n for n, _ in model["files"]])
            if c.returncode or names != wantn:
                bad.append({"run": run, "what": "file list", "got": names[:6], "want": wantn[:6],
                            "err": c.stderr.decode()[:200]})
    finally:
        shutil.rmtree(d, True)
    return {"packages": pk, "n_disagreements": len(bad), "disagreements": bad[:5]}


def main(argv):
    res = {"C19_transport_stub_vs_file_url": c19_transport(),
           "C19_ed_script_vs_diff_e": c19_diff(),
           "C06_ar_writer_vs_usr_bin_ar": c06_ar(),
           "C07_assembler_vs_dpkg_deb": c07_dpkg()}
    d = os.path.join(HERE, "selftest_results")
    os.makedirs(d, exist_ok=True)
    with open(os.path.join(d, "fidelity.json"), "w") as f:
        json.dump(res, f, indent=1, sort_keys=True)
        f.write("\n")
    print(json.dumps(res, indent=1)[:3000])
    ok = all(v.get("n_disagreements", 0) == 0 and v.get("scripts_not_reproducing_target", 0) == 0
             for v in res.values())
    return 0 if ok else 1
