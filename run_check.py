#!/venv/bin/python
"""Entry point:  run_check.py <ID> --tier quick|thorough [--runs N] [--jobs J] [--wall S]
                 run_check.py <ID> --replay <file>
See DESIGN.md section 7."""
import os
import sys

sys.path.insert(0, os.path.dirname(os.path.abspath(__file__)))
sys.dont_write_bytecode = True

from simkit.runner import main  # noqa: E402

if __name__ == "__main__":
    sys.exit(main())
