#!/venv/bin/python
"""Writes MANIFEST.json from the table below (so that it is always schema-valid)."""
import json, os
HERE = os.path.dirname(os.path.abspath(__file__))
PY = "/venv/bin/python"

CLAIMED = {
 "C19": dict(level="fault_enumeration",
    text="Deterministic simulation of one updater against an in-memory repository (real urllib, sim: transport) and a fault-injecting filesystem layer: for every sampled world (file history, index shape, local state) the fault-free execution plus EVERY applicable single fault (transport, payload, index, open/write/close/rename) is executed and judged against an outcome table (converge / raise-and-leave-intact / either); pairs of faults are sampled in the thorough tier. Exhaustive over single faults per sampled world, sampling over worlds.",
    ref="5.C19", note="Trusted: the in-memory transport and the operation-level fault injector represent urllib/OS failures faithfully (checked by selftest fidelity against file:// and a real directory); tmpfs directory; unlink never fails; content is UTF-8 text without CR or a lone '.' line.",
    technique="deterministic simulation, exhaustive single-fault enumeration per seeded world + sampled fault pairs"),
 "C06": dict(level="exploration",
    text="Deterministic simulation of several clients (one per ArMember handle, from 1..3 ArFile instances sharing ONE file object or re-opening by file name) issuing seeded interleavings of read/readline/readlines/seek/tell; after every call the result and the position are compared with a BytesIO holding that member's bytes, and the listing (names, order, size, owner, group, mtime, last-of-name lookup) with the generated archive. Seeded sampling of archives and histories; no proof.",
    ref="5.C06", note="Trusted: the independent 15-line ar writer (cross-checked against /usr/bin/ar in the fidelity self-test), io.BytesIO as the reference file; domain restricted to well-formed short-name archives and non-negative seek targets as the property states.",
    technique="deterministic simulation: seeded interleaving of member clients over a shared file object vs. in-memory reference files"),
 "C14": dict(level="exploration",
    text="Deterministic simulation of assignment histories on 1..3 live Version handles in which any operation may be refused (the injected fault is the rejected operation): construction and component assignment with valid, invalid, empty and None values are judged step by step against a hand-written validator/decomposer (no regex), and after a refusal every observable of every handle must be unchanged. Seeded sampling of histories.",
    ref="5.C14", note="Trusted: the hand-written Policy 5.6.12 validator (about 25 lines) as reference; empty-string assignment to an optional part may be rejected or treated as absent.",
    technique="deterministic simulation: seeded operation histories with rejected-operation rollback checks vs. reference decomposer"),
 "C20": dict(level="exploration",
    text="Deterministic simulation of all live DB handles (the original read through a simulator-owned line stream, plus every copy / reverse view / filter / choice / facet collection derived during the run) receiving inserts and derivations in a seeded order; after every step every live handle is compared, through the public query methods, with a reference relation, and the same runs are repeated under three PYTHONHASHSEED values and must produce identical event logs. Two documented open findings (insert stores the characters of the name; sharing derivations alias sets) are recognised only by their exact signature; anything else is a violation. Seeded sampling of collections and histories.",
    ref="5.C20", note="Trusted: the 60-line reference database (two dicts of sets, snapshot semantics for derivations) and its object-level aliasing twin used only to recognise the sharing finding; hand-derived facet function; package names distinct and free of ', ' / ': '.",
    technique="deterministic simulation: seeded multi-handle operation histories vs. reference relation, hash-seed sweep"),
 "C05": dict(level="exploration",
    text="Deterministic simulation of edit histories (set / add / delete / read, incl. assignments that must be refused) issued through several paragraph handles obtained at different times (held objects, fresh list(file)[i], configured views) with handle drops and garbage collections as schedule steps; after every mutation the dump must equal untouched-prefix + X + untouched-suffix computed from the generator's own segment list, X must be exactly one field by an independent mini-parser with the original spelling and the assigned value, and a fresh parse must show the model's paragraphs. Seeded sampling of documents and histories.",
    ref="5.C05", note="Trusted: the document generator's segment bookkeeping, the 30-line field mini-parser and value normaliser; the SUT parser is used for the fresh-parse comparison (its losslessness is C01, not claimed here).",
    technique="deterministic simulation: seeded multi-handle edit histories vs. byte-exact segment model"),
 "C10": dict(level="exploration",
    text="Deterministic simulation of structural edit histories on documents with unique or duplicated field names: order_first/last/before/after with plain and (name, i) keys, sort_fields, indexed/un-indexed set and delete, file.insert/append of new paragraphs, operations that must fail and change nothing, handle drops and gc steps. Exact dump equality against a document-order model for in-paragraph operations; for paragraph insertion the file's element sequence must be the model's paragraphs with only blank lines/comments between them, no free comment lost, and no merge; fresh parse equals the model; (name, i) reads the i-th occurrence in document order. Seeded sampling.",
    ref="5.C10", note="Trusted: the document-order model (lists of byte-exact segments); the side of a free comment on insertion is unspecified and not constrained; out-of-range occurrence index may raise KeyError or IndexError.",
    technique="deterministic simulation: seeded structural-edit histories vs. document-order list model"),
 "C09": dict(level="exploration",
    text="Deterministic simulation of operation histories on 1..4 live Deb822 handles (original, copies, objects re-parsed from a dump): assignments, deletions, pops, lookups, order_first/last/before/after, sort_fields with default and custom keys, copy, dump->parse, handle drops and gc.collect() as explicit schedule steps, including operations that must fail (KeyError / ValueError) and then change nothing. Every live handle is compared with an ordered list model (lower-case name, first spelling, value) after every step. Seeded sampling of histories.",
    ref="5.C09", note="Trusted: the list model (40 lines); values restricted to text that validate_input accepts and that survives dump->parse unchanged.",
    technique="deterministic simulation: seeded multi-handle operation histories with failing operations vs. ordered list model"),
 "C11": dict(level="exploration",
    text="Deterministic simulation of list views as transactions (open, append / remove / replace / reference-set / reference-remove incl. edits that must be refused, commit or abort) on different fields of one paragraph, interleaved and committed in any order by the seeded scheduler, with held ValueReferences and gc steps. Reads are judged against an independent splitter; an open view against a per-view list model; after a commit the field must re-read as the model list (splitter and fresh view), the rest of the document must be byte-identical (prefix + X + suffix), an untouched or aborted view must change nothing, and the document must still parse. Seeded sampling of layouts and histories.",
    ref="5.C11", note="Trusted: the 8-line splitter, the field mini-parser; one open view per field at a time; removing the last value excluded.",
    technique="deterministic simulation: seeded interleaving of commit-on-exit list-view transactions vs. splitter and list model"),
 "C07": dict(level="exploration",
    text="Deterministic simulation of a control-reader, a data-reader and up to three stream clients (file objects from get_file read in small chunks) that share one file object through two ArMembers and two lazily created TarFile readers, over packages assembled independently in any of the 5 x 5 part compressions, three tar formats and permuted member orders; the seeded scheduler interleaves whole queries (debcontrol, scripts, md5sums, has_file / in / get_content / [] under the three path spellings, name listings) with partial chunk reads. Results are compared with the packed dictionaries; structurally defective member sets (lost / duplicated parts) must raise DebError from the constructor; runs are repeated under three hash seeds. Seeded sampling.",
    ref="5.C07", note="Trusted: the independent assembler (stdlib tarfile/gzip/bz2/lzma + 15-line ar writer, cross-checked against dpkg-deb in the fidelity self-test); text-mode reads follow Python's text layer (universal newlines).",
    technique="deterministic simulation: seeded interleaving of part readers and chunked stream clients over one shared file object vs. packed dictionaries; hash-seed sweep"),
 "C15": dict(level="exploration",
    text="Deterministic simulation of the parser's one seam and one history: a simulator-owned line stream (well-formed changelog with seeded line loss, duplication, insertion from a line-class table and truncation; delivered as str / bytes / list / lazy iterator / file object; allow_empty_author on and off) followed by a seeded editing history (new_block, add_change, attribute assignments). Relations checked over the recorded history: the lenient constructor never raises; strict parsing raises ChangelogParseError exactly when the lenient parse of the same stream warned (process-global warning state neutralised); whenever str() succeeds, re-parsing yields the same blocks and re-formatting the identical text. Seeded sampling; there is no schedule dimension.",
    ref="5.C15", note="Trusted: the relations themselves (no executable reference parser); editing calls use well-formed values only; valid UTF-8 input.",
    technique="deterministic simulation: seeded stream-fault injection (drop/duplicate/insert/truncate lines) + edit histories, relational oracles"),
}
PENDING = {}
NA = {
 "C01": "Pure function of the line list (quantifier: inputs only): no state, seam, fault or order of operations for a simulator to own; it is an enumeration / property-based-testing target (DESIGN.md section 2).",
 "C02": "Pure function of (text, input form, armor flag); the 'configurations' are argument shapes, not schedules or faults; input objects are iterated once, sequentially (DESIGN.md section 2).",
 "C03": "Pure function of two/three version strings; needs a reference comparator and enumeration, nothing a scheduler or fault injector adds (DESIGN.md section 2).",
 "C04": "Pure function of a grammar-generated changelog text; no history and no fault (the faulted-stream half of changelog parsing is C15, which is claimed) (DESIGN.md section 2).",
 "C08": "Pure function of (key, value): accept/reject, then dump->parse; the 'unchanged on reject' clause is a single call, not a history (DESIGN.md section 2).",
 "C12": "Pure function of (class, record lists, field subset, one enum knob); no persistent state or seam (DESIGN.md section 2).",
 "C13": "Pure function of one relation structure (str/parse inverse law); no state (DESIGN.md section 2).",
 "C16": "Pure function of (patterns, file name); the only state is a cache keyed by the Files text, which the property does not quantify over (DESIGN.md section 2).",
 "C17": "Pure function of a document structure (codec inverse laws); no history, seam or fault (DESIGN.md section 2).",
 "C18": "Pure function of (old lines, ed script); unterminated blocks are prefixes of the input. Its code runs unstubbed inside C19's simulation, but C18 itself is not claimed (DESIGN.md section 2).",
}

def main():
    checks = []
    for pid in sorted(CLAIMED):
        c = CLAIMED[pid]
        checks.append({
            "property_id": pid,
            "quick_cmd": "%s run_check.py %s --tier quick" % (PY, pid),
            "thorough_cmd": "%s run_check.py %s --tier thorough" % (PY, pid),
            "evidence_file": "/verif/evidence/%s.json" % pid,
            "replay_cmd_template": "%s run_check.py %s --replay {path}" % (PY, pid),
            "engine": "simkit",
            "level_claimed": {"category": c["level"], "text": c["text"],
                              "design_ref": "DESIGN.md section " + c["ref"]},
            "level_note": c["note"],
            "technique": c["technique"],
        })
    na = [{"property_id": k, "reason": v} for k, v in sorted({**NA, **PENDING}.items())]
    man = {
        "version": 1,
        "setup_cmd": "%s setup_check.py" % PY,
        "hooks": {"guard": "PYTHON_DEBIAN_VERIF",
                  "enable": "no source hook exists: every seam is reached from outside (urllib opener for scheme sim:, wrappers around builtins.open / os.rename / os.replace, caller supplied file objects and line streams); checks import /repo/lib (or $VERIF_REPO/lib) directly from the working tree, no build step",
                  "baseline_off_cmd": "cd /repo && /venv/bin/python -m pytest -ra -q -p no:cacheprovider --timeout=900 --continue-on-collection-errors",
                  "source_commits": [], "add_only": True},
        "engines": [{"name": "simkit", "path": "/verif/simkit",
                     "serves_properties": sorted(CLAIMED),
                     "kind_free_text": "hand-written deterministic simulator: seeded world / schedule / fault generators, explicit JSON traces, reference models, ddmin shrinking, fresh-interpreter replay"}],
        "checks": checks,
        "not_applicable": na,
        "notes": "Exit 0 = held (KNOWN-FINDING lines allowed), 1 = VIOLATION line printed, 2 = harness error. VERIF_SEED selects the seed, VERIF_REPO the tree (default /repo). Every check: seeded worlds/schedules/faults, explicit JSON traces, at most 64 runs per freshly forked child (cold and warm process state), schedulable observation (incl. steps without any rendering), no new chunk is started once a violation has been found, ddmin + world reduction, replay in a fresh interpreter (with the process history when the violation depends on it), hash-seed sweep. Genuine defects found (repaired by 15 'fix:' commits in /repo; 2 open with witness cases): KNOWN_FINDINGS.json and DESIGN.md 4.1. Self-tests (selftest.py): determinism, 26 hand-written mutants, 273 changes seeded by independent sub-agents in 10 rounds (269 caught by the quick tier; the 4 misses of round 10 - two need a short read of the caller's file object, two need C11 input shapes not generated yet - are listed in DESIGN 9.2), 91 behaviour-preserving re-implementations (all silent), stub fidelity; see DESIGN.md sections 6 and 9.",
    }
    with open(os.path.join(HERE, "MANIFEST.json"), "w") as f:
        json.dump(man, f, indent=1)
        f.write("\n")

if __name__ == "__main__":
    main()
