"""simkit.runner -- seeded batch search, merging, shrinking, replay, evidence.

Exit status: 0 = property held on everything explored (KNOWN-FINDING lines allowed),
1 = violation (a line ``VIOLATION property=<id> replay=<path>`` is printed),
2 = harness error (never confused with either).
"""
import argparse
import faulthandler
import gc
import importlib
import json
import multiprocessing
import multiprocessing.connection
import os
import signal
import subprocess
import sys
import tempfile
import time
import traceback

from .core import HarnessError, Outcome, Violation, jsonable, stable_hash
from . import shrink as _shrink

VERIF_DIR = os.path.dirname(os.path.dirname(os.path.abspath(__file__)))
RUN_TIMEOUT = 90          # seconds; a single run on a tiny world never legitimately needs this
HANG_TIMEOUT = 300        # seconds; worker is killed (harness error) if a run cannot be interrupted
STATE_CAP = 400000        # distinct state hashes kept per chunk / overall (lower bound beyond)


class RunTimeout(BaseException):
    pass


def repo_dir():
    return os.environ.get("VERIF_REPO", "/repo")


def _ensure_env():
    """Re-exec once with a pinned hash seed and UTF-8 mode so that nothing depends on the
    interpreter's per-process randomisation (unless the caller pinned it already)."""
    if os.environ.get("PYTHONHASHSEED") is None or os.environ.get("PYTHONUTF8") != "1":
        env = dict(os.environ)
        env.setdefault("PYTHONHASHSEED", "0")
        env["PYTHONUTF8"] = "1"
        env["PYTHONDONTWRITEBYTECODE"] = "1"
        os.execve(sys.executable, [sys.executable] + sys.argv, env)


def load_property(pid):
    lib = os.path.join(repo_dir(), "lib")
    if not os.path.isdir(os.path.join(lib, "debian")):
        raise HarnessError("no python-debian tree at %s" % lib)
    if lib not in sys.path:
        sys.path.insert(0, lib)
    if VERIF_DIR not in sys.path:
        sys.path.insert(0, VERIF_DIR)
    import debian
    if not os.path.abspath(debian.__file__).startswith(os.path.abspath(lib)):
        raise HarnessError("debian imported from %s, expected %s" % (debian.__file__, lib))
    return importlib.import_module("props." + pid.lower())


def _in_repo(tb):
    lib = os.path.abspath(os.path.join(repo_dir(), "lib", "debian"))
    for fs in traceback.extract_tb(tb):
        if os.path.abspath(fs.filename).startswith(lib):
            return True
    return False


def _alarm(signum, frame):
    raise RunTimeout()


def safe_execute(mod, case):
    """Execute one case; classify what comes out.  Returns an Outcome."""
    old = signal.signal(signal.SIGALRM, _alarm)
    limit = getattr(mod, "RUN_TIMEOUT", RUN_TIMEOUT)
    signal.alarm(limit)
    try:
        out = mod.execute(case)
    except RunTimeout:
        out = Outcome()
        out.violation = {"clause": "no-progress", "op": "run",
                         "detail": "run did not finish within %d s wall" % limit}
    except Violation as v:
        out = Outcome()
        out.violation = v.as_dict()
    except HarnessError:
        raise
    except RecursionError as e:
        out = Outcome()
        out.violation = {"clause": "unexpected-exception", "op": "RecursionError",
                         "detail": str(e)[:200]}
    except Exception as e:   # pylint: disable=broad-except
        if _in_repo(e.__traceback__):
            out = Outcome()
            out.violation = {"clause": "unexpected-exception", "op": type(e).__name__,
                             "detail": "".join(traceback.format_exception(e))[-1500:]}
        else:
            raise HarnessError("harness exception: " +
                               "".join(traceback.format_exception(e))[-3000:])
    finally:
        signal.alarm(0)
        signal.signal(signal.SIGALRM, old)
    if out.violation is not None and out.violation_case is None:
        out.violation_case = case
    return out


def vclass(v):
    return (v["clause"], v["op"])


# --------------------------------------------------------------------------- batch

_G = {}


def _work(chunk):
    """Run a chunk of run indices in a forked worker; return a compact aggregate."""
    mod = _G["mod"]
    seed = _G["seed"]
    tier = _G["tier"]
    deadline = _G["deadline"]
    faulthandler.enable()
    agg = {"runs": 0, "executions": 0, "steps": 0, "faults": {}, "probes": {}, "extra": {},
           "states": set(), "inter": set(), "nontrivial": set(), "digests": [],
           "violations": [], "known": {}, "samples": [], "skipped": 0, "capped": False}
    gc.disable()
    for i in chunk:
        if time.monotonic() > deadline:
            agg["skipped"] += 1
            continue
        faulthandler.dump_traceback_later(HANG_TIMEOUT, exit=True)
        try:
            case = mod.generate(seed, i, tier)
            out = safe_execute(mod, case)
        finally:
            faulthandler.cancel_dump_traceback_later()
        agg["runs"] += 1
        agg["executions"] += out.executions
        agg["steps"] += out.steps
        for k, v in out.faults.items():
            agg["faults"][k] = agg["faults"].get(k, 0) + v
        for k, v in out.probes.items():
            agg["probes"][k] = agg["probes"].get(k, 0) + v
        for k, v in out.extra.items():
            agg["extra"][k] = agg["extra"].get(k, 0) + v
        if len(agg["states"]) < STATE_CAP:
            agg["states"] |= out.states
        else:
            agg["capped"] = True
        agg["inter"].add(out.interleaving)
        if out.nontrivial_keys:
            if len(agg["nontrivial"]) < STATE_CAP:
                agg["nontrivial"] |= out.nontrivial_keys
        elif out.nontrivial:
            agg["nontrivial"].add(out.interleaving)
        agg["digests"].append((i, out.digest))
        for k in out.known:
            agg["known"][k] = agg["known"].get(k, 0) + 1
        if out.violation is not None and len(agg["violations"]) < 5:
            agg["violations"].append((i, out.violation, out.violation_case))
        if len(agg["samples"]) < 1:
            agg["samples"].append((i, mod.describe(case)))
        if agg["runs"] % 64 == 0:
            gc.collect()
    return agg


def _child(conn, chunk):
    try:
        conn.send(("ok", _work(chunk)))
    except HarnessError as e:
        conn.send(("harness", str(e)))
    except BaseException as e:   # pylint: disable=broad-except
        conn.send(("harness", "worker exception: " + "".join(traceback.format_exception(e))[-3000:]))
    finally:
        conn.close()


def chunk_indices(k, runs, nchunks):
    return list(range(k, runs, nchunks))


def n_chunks(runs, jobs):
    # at most 64 runs per freshly forked child: many cold starts (module- and class-level
    # state empty) as well as warm ones, and short histories to replay
    return max(1, min(runs, max(jobs * 6, (runs + 63) // 64)))


def run_batch(mod, seed, tier, runs, wall, jobs):
    """Every chunk of run indices is executed by its own freshly forked child, so the
    process state a run sees is a function of (tree, seed, the earlier runs of its chunk)
    only -- which is what makes a history-dependent violation replayable."""
    ctx = multiprocessing.get_context("fork")
    nchunks = n_chunks(runs, jobs)
    chunks = [chunk_indices(k, runs, nchunks) for k in range(nchunks)]
    _G.update(mod=mod, seed=seed, tier=tier, deadline=time.monotonic() + wall)
    results = [None] * nchunks
    skipped_unstarted = 0
    if jobs == 1 and os.environ.get("VERIF_INPROCESS") == "1":
        for k, c in enumerate(chunks):
            results[k] = _work(c)
    else:
        pending = list(range(nchunks))
        live = {}
        hard_deadline = time.monotonic() + wall + HANG_TIMEOUT + 60
        while pending or live:
            if pending and time.monotonic() > _G["deadline"]:
                # the wall budget is used up: the chunks not yet started count as skipped
                # (forking tens of thousands of children that return at once would itself
                # take minutes)
                skipped_unstarted += sum(len(chunks[k]) for k in pending)
                pending = []
                continue
            while pending and len(live) < jobs:
                k = pending.pop(0)
                parent, child = ctx.Pipe(duplex=False)
                proc = ctx.Process(target=_child, args=(child, chunks[k]))
                proc.start()
                child.close()
                live[k] = (proc, parent)
            ready = multiprocessing.connection.wait([c for (_, c) in live.values()], timeout=5)
            for k in list(live):
                proc, conn = live[k]
                if conn in ready:
                    try:
                        kind, payload = conn.recv()
                    except EOFError:
                        kind, payload = "harness", "worker for chunk %d died (exit %s)" % (
                            k, proc.exitcode)
                    conn.close()
                    proc.join(30)
                    del live[k]
                    if kind != "ok":
                        for (p2, c2) in live.values():
                            p2.kill()
                        raise HarnessError(payload)
                    results[k] = payload
                    if payload["violations"] and os.environ.get("VERIF_NO_FAILFAST") != "1":
                        # the answer is "violated" whatever the rest of the batch does: the
                        # chunks already running finish, no new ones are started
                        pending = []
            if time.monotonic() > hard_deadline:
                for (p2, c2) in live.values():
                    p2.kill()
                raise HarnessError("worker pool timed out")
    merged = {"runs": 0, "executions": 0, "steps": 0, "faults": {}, "probes": {}, "extra": {},
              "states": set(), "inter": set(), "nontrivial": set(), "digests": [],
              "violations": [], "known": {}, "samples": [], "skipped": 0, "capped": False}
    merged["skipped"] += skipped_unstarted
    for r in results:
        if r is None:
            continue        # not started: wall budget used up, or a violation already found
        for k in ("runs", "executions", "steps", "skipped"):
            merged[k] += r[k]
        for t in ("faults", "probes", "extra", "known"):
            for k, v in r[t].items():
                merged[t][k] = merged[t].get(k, 0) + v
        if len(merged["states"]) < STATE_CAP * 4:
            merged["states"] |= r["states"]
        else:
            merged["capped"] = True
        merged["capped"] = merged["capped"] or r["capped"]
        merged["inter"] |= r["inter"]
        merged["nontrivial"] |= r["nontrivial"]
        merged["digests"].extend(r["digests"])
        merged["violations"].extend(r["violations"])
        merged["samples"].extend(r["samples"])
    merged["digests"].sort()
    merged["violations"].sort(key=lambda t: t[0])
    merged["samples"].sort(key=lambda t: t[0])
    return merged


# --------------------------------------------------------------------------- known findings

def load_known(pid):
    path = os.path.join(VERIF_DIR, "KNOWN_FINDINGS.json")
    if not os.path.exists(path):
        return []
    with open(path) as f:
        data = json.load(f)
    return [e for e in data.get("findings", []) if e.get("property") == pid]


# --------------------------------------------------------------------------- shrink / replay

def minimise(mod, case, klass):
    def fails(c):
        try:
            out = safe_execute(mod, c)
        except HarnessError:
            return False
        return out.violation is not None and vclass(out.violation) == klass
    cands = getattr(mod, "shrink_candidates", None)
    keys = getattr(mod, "TRACE_KEYS", ("trace",))
    if not fails(case):
        return case, 0, False
    small, execs = _shrink.shrink_case(case, fails, cands, keys)
    return small, execs, True


def write_replay(pid, seed, run, case, violation, history=None):
    d = os.path.join(VERIF_DIR, "replays")
    os.makedirs(d, exist_ok=True)
    path = os.path.join(d, "%s-%d-%d.json" % (pid, seed, run))
    data = {"property": pid, "seed": seed, "run": run, "case": case, "violation": violation}
    if history:
        data["history"] = history
        data["note"] = ("the violation depends on process state left behind by the earlier "
                        "executions listed under 'history' (same worker, same order)")
    with open(path, "w") as f:
        json.dump(data, f, indent=1, sort_keys=True)
        f.write("\n")
    return path


def history_fallback(mod, pid, seed, tier, runs, jobs, i, v, vcase):
    """The violation of run i does not reproduce from its case alone: look for the
    shortest prefix of its own chunk (a fresh child executed exactly those runs, in that
    order) that makes it reproduce in a fresh interpreter."""
    nchunks = n_chunks(runs, jobs)
    prefix = [j for j in chunk_indices(i % nchunks, runs, nchunks) if j < i]
    full = mod.generate(seed, i, tier)
    cands = [[i]]
    if prefix:
        cands.append(prefix[-1:])
        cands.append(prefix[-4:])
        cands.append(prefix)
    tried = []
    for idxs in cands:
        if idxs in tried:
            continue
        tried.append(idxs)
        hist = [mod.generate(seed, j, tier) for j in idxs]
        for case in (vcase, full):
            path = write_replay(pid, seed, i, case, v, history=hist)
            if fresh_replay(pid, path):
                return path
    return None


def fresh_replay(pid, path):
    """Replay in a fresh interpreter; returns True if the violation reproduces there."""
    env = dict(os.environ)
    env["PYTHONHASHSEED"] = "0"
    env["PYTHONUTF8"] = "1"
    p = subprocess.run([sys.executable, os.path.join(VERIF_DIR, "run_check.py"), pid,
                        "--replay", path, "--no-evidence"], env=env, capture_output=True,
                       text=True, timeout=600)
    return p.returncode == 1 and "VIOLATION property=%s" % pid in p.stdout


def _digest_under(pid, path, hashseed):
    env = dict(os.environ)
    env["PYTHONHASHSEED"] = str(hashseed)
    env["PYTHONUTF8"] = "1"
    p = subprocess.run([sys.executable, os.path.join(VERIF_DIR, "run_check.py"), pid,
                        "--case-digest", path], env=env, capture_output=True, text=True,
                       timeout=600)
    for line in p.stdout.splitlines():
        if line.startswith("DIGEST "):
            return line.split(" ", 1)[1]
    raise HarnessError("case-digest subprocess failed: %s %s" % (p.stdout[-500:],
                                                                 p.stderr[-500:]))


def hashseed_sweep(mod, pid, seed, tier, count, jobs, merged):
    """S7: the same runs under other PYTHONHASHSEED values must give identical digests."""
    mine = dict(merged["digests"])
    count = min(count, len(mine))
    bad = []
    for hs in (1, 31337):
        fd, tmp = tempfile.mkstemp(prefix="verif-digests-")
        os.close(fd)
        try:
            env = dict(os.environ)
            env["PYTHONHASHSEED"] = str(hs)
            env["PYTHONUTF8"] = "1"
            env["VERIF_SEED"] = str(seed)
            p = subprocess.run([sys.executable, os.path.join(VERIF_DIR, "run_check.py"), pid,
                                "--tier", tier, "--runs", str(count), "--jobs", str(jobs),
                                "--digests", tmp, "--no-evidence", "--no-hashseed-sweep"],
                               env=env, capture_output=True, text=True, timeout=3600)
            if p.returncode not in (0, 1):
                raise HarnessError("hash-seed sweep subprocess failed: %s" % p.stderr[-800:])
            with open(tmp) as f:
                for line in f:
                    i, d = line.split()
                    if int(i) in mine and mine[int(i)] != d:
                        bad.append((int(i), hs))
        finally:
            os.unlink(tmp)
    return count, sorted(set(bad))


def do_replay(mod, pid, path):
    with open(path) as f:
        data = json.load(f)
    case = data["case"]
    for earlier in data.get("history", []):
        # process history the violation depends on (earlier runs of the same worker)
        try:
            safe_execute(mod, earlier)
        except HarnessError:
            pass
    if data.get("hashseed_pair"):
        a, b = data["hashseed_pair"]
        da, db = _digest_under(pid, path, a), _digest_under(pid, path, b)
        if da == db:
            print("replay %s: identical under PYTHONHASHSEED %s and %s" % (path, a, b))
            return 0
        print("replay %s: event log differs between PYTHONHASHSEED=%s (%s) and %s (%s)" %
              (path, a, da, b, db))
        print("VIOLATION property=%s replay=%s" % (pid, path))
        return 1
    out = safe_execute(mod, case)
    if out.violation is None:
        print("replay %s: no violation (property held on this case)" % path)
        return 0
    want = data.get("violation")
    print("replay %s: %s" % (path, json.dumps(out.violation)[:2000]))
    if want and vclass(want) != vclass(out.violation):
        print("note: violation class differs from the recorded one %r" % (vclass(want),))
    print("VIOLATION property=%s replay=%s" % (pid, path))
    return 1


# --------------------------------------------------------------------------- main

def main(argv=None):
    ap = argparse.ArgumentParser()
    ap.add_argument("property")
    ap.add_argument("--tier", default=os.environ.get("VERIF_TIER", "quick"),
                    choices=["quick", "thorough"])
    ap.add_argument("--runs", type=int)
    ap.add_argument("--wall", type=float)
    ap.add_argument("--jobs", type=int, default=int(os.environ.get("VERIF_JOBS", "0")))
    ap.add_argument("--replay")
    ap.add_argument("--no-evidence", action="store_true")
    ap.add_argument("--digests", help="write per-run digests to this file (self-test)")
    ap.add_argument("--case-digest", help="execute the case in this replay file, print digest")
    ap.add_argument("--no-hashseed-sweep", action="store_true")
    args = ap.parse_args(argv)
    _ensure_env()
    pid = args.property.upper()
    t0 = time.monotonic()
    try:
        mod = load_property(pid)
        if args.case_digest:
            with open(args.case_digest) as f:
                out = safe_execute(mod, json.load(f)["case"])
            print("DIGEST %s %s" % (out.digest, json.dumps(out.violation)))
            return 0
        if args.replay:
            return do_replay(mod, pid, args.replay)
        seed = int(os.environ.get("VERIF_SEED", "0"))
        cfg = dict(mod.TIERS[args.tier])
        runs = args.runs or cfg["runs"]
        wall = args.wall or cfg["wall"]
        jobs = args.jobs or min(16, os.cpu_count() or 1)
        print("check %s tier=%s seed=%d runs=%d jobs=%d wall<=%ds repo=%s" %
              (pid, args.tier, seed, runs, jobs, wall, repo_dir()))
        sys.stdout.flush()

        # Known findings: each open entry carries a witness case; print its line iff the
        # defect is still observable on this tree.  Never written at run time.
        known_entries = load_known(pid)
        open_ids = set()
        for e in known_entries:
            if e.get("status") != "open":
                continue
            open_ids.add(e["id"])
            out = safe_execute(mod, e["witness"])
            if e["id"] in out.known:
                print("KNOWN-FINDING: property=%s %s" % (pid, e["what"]))
            elif out.violation is not None:
                print("note: witness of %s now fails differently: %s" %
                      (e["id"], json.dumps(out.violation)[:300]))
            else:
                print("note: open finding %s no longer reproduces on this tree" % e["id"])

        merged = run_batch(mod, seed, args.tier, runs, wall, jobs)
        wall_s = time.monotonic() - t0

        # violations: one replay per distinct class, lowest run index first
        reported = []
        seen = set()
        for (i, v, vcase) in merged["violations"]:
            k = vclass(v)
            if k in seen:
                continue
            seen.add(k)
            if len(reported) >= 3:
                break
            small, execs, ok = minimise(mod, vcase, k)
            path = None
            if ok:
                out = safe_execute(mod, small)
                path = write_replay(pid, seed, i, small, out.violation)
                if fresh_replay(pid, path):
                    reported.append((i, out.violation, path, execs))
                    continue
            path = history_fallback(mod, pid, seed, args.tier, runs, jobs, i, v, vcase)
            if path is None:
                raise HarnessError("violation of run %d (%r) reproduces neither from its case "
                                   "nor from its chunk's history in a fresh interpreter"
                                   % (i, v))
            reported.append((i, v, path, execs))

        hs_info = None
        hs_runs = getattr(mod, "HASHSEED_RUNS", {}).get(args.tier, 0)
        if hs_runs and not args.no_hashseed_sweep and not reported:
            n, bad = hashseed_sweep(mod, pid, seed, args.tier, hs_runs, jobs, merged)
            hs_info = {"runs_compared": n, "hash_seeds": [0, 1, 31337],
                       "divergent_runs": len(bad)}
            for (i, hs) in bad[:1]:
                case = mod.generate(seed, i, args.tier)
                path = write_replay(pid, seed, i, case,
                                    {"clause": "outcome-depends-on-hash-order", "op": "run",
                                     "detail": "event log differs under PYTHONHASHSEED=%d" % hs})
                with open(path) as f:
                    data = json.load(f)
                data["hashseed_pair"] = [0, hs]
                with open(path, "w") as f:
                    json.dump(data, f, indent=1, sort_keys=True)
                reported.append((i, data["violation"], path, 0))
        merged["hashseed"] = hs_info

        if args.digests:
            with open(args.digests, "w") as f:
                for i, d in merged["digests"]:
                    f.write("%d %s\n" % (i, d))

        if not args.no_evidence:
            write_evidence(mod, pid, args.tier, seed, runs, jobs, merged, reported,
                           time.monotonic() - t0, wall_s)
        for k, n in sorted(merged["known"].items()):
            print("known finding %s observed in %d runs" % (k, n))
        print("runs=%d/%d executions=%d steps=%d distinct_interleavings=%d states%s=%d "
              "wall=%.1fs" % (merged["runs"], runs, merged["executions"], merged["steps"],
                              len(merged["inter"]), ">" if merged["capped"] else "",
                              len(merged["states"]), time.monotonic() - t0))
        if merged["runs"] == 0:
            raise HarnessError("no run completed")
        for (i, v, path, execs) in reported:
            print("violation in run %d (minimised with %d executions): %s" %
                  (i, execs, json.dumps(v)[:1500]))
            print("VIOLATION property=%s replay=%s" % (pid, path))
        return 1 if reported else 0
    except HarnessError as e:
        print("HARNESS-ERROR property=%s %s" % (pid, e), file=sys.stderr)
        return 2


def write_evidence(mod, pid, tier, seed, runs, jobs, m, reported, wall_total, wall_batch):
    probes = dict((p, 0) for p in getattr(mod, "PROBES", []))
    probes.update(m["probes"])
    cov = {
        "evaluations": m["executions"],
        "distinct_nontrivial": len(m["nontrivial"]),
        "rule": mod.RULE,
        "samples": [s for (_, s) in m["samples"][:3]],
        "runs_planned": runs,
        "runs_completed": m["runs"],
        "runs_skipped_by_wall_cap": m["skipped"],
        "runs_per_hour": int(m["runs"] * 3600 / max(wall_batch, 1e-6)),
        "executions_per_hour": int(m["executions"] * 3600 / max(wall_batch, 1e-6)),
        "steps": m["steps"],
        "simulated_time": "not applicable: no clock, timer or deadline in any anchored "
                          "code path; progress is measured in steps (scheduler decisions "
                          "and seam operations)",
        "faults_fired": dict(sorted(m["faults"].items())),
        "distinct_interleavings": len(m["inter"]),
        "interleaving_measure": "distinct hashes of the executed (actor, op-kind[, fault]) "
                                "sequence of a run",
        "distinct_model_states": len(m["states"]),
        "distinct_model_states_is_lower_bound": bool(m["capped"]),
        "state_measure": "distinct 64-bit hashes of the reference model state after a step",
        "probes": dict(sorted(probes.items())),
        "probes_at_zero": sorted(k for k, v in probes.items() if v == 0),
        "counters": dict(sorted(m["extra"].items())),
        "known_findings_observed": dict(sorted(m["known"].items())),
        "real_code": mod.REAL,
        "stubbed": mod.STUB,
        "workers": jobs,
        "exhaustive": False,
    }
    if m.get("hashseed"):
        cov["hash_seed_sweep"] = m["hashseed"]
    if hasattr(mod, "evidence_extra"):
        cov.update(mod.evidence_extra(m))
    ev = {
        "property_id": pid,
        "tier": tier,
        "seed": seed,
        "level": mod.LEVEL,
        "coverage": jsonable(cov),
        "assumptions": mod.ASSUMPTIONS,
        "wall_s": round(wall_total, 2),
        "violations": len(reported),
    }
    d = os.path.join(VERIF_DIR, "evidence")
    os.makedirs(d, exist_ok=True)
    tmp = os.path.join(d, ".%s.json.tmp" % pid)
    with open(tmp, "w") as f:
        json.dump(ev, f, indent=1, sort_keys=True)
        f.write("\n")
    os.replace(tmp, os.path.join(d, "%s.json" % pid))
