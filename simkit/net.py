"""simkit.net -- the remote-transport seam (S2).

A urllib protocol handler for the scheme ``sim:``; installed once with
``urllib.request.install_opener``.  ``urlopen`` and ``urlretrieve`` of the real urllib then
reach an in-memory URL->bytes map owned by the simulator, whichever way the code under test
imports or calls them.  Every fetch is logged; a fetch can be made to fail (missing,
connection reset after k bytes) by the fault plan -- payload faults (truncated / bit-flipped
gzip, altered content, malformed index) are applied to the map before the run starts.
"""
import email.message
import io
import urllib.error
import urllib.request
import urllib.response


class AbortingReader(io.RawIOBase):
    """Delivers the first *cut* bytes, then raises ConnectionResetError."""

    def __init__(self, data, cut):
        io.RawIOBase.__init__(self)
        self._data = data
        self._cut = cut
        self._pos = 0

    def readable(self):
        return True

    def _take(self, n):
        if self._pos >= self._cut:
            raise ConnectionResetError(104, "Connection reset by peer (injected)")
        end = self._cut if n is None or n < 0 else min(self._cut, self._pos + n)
        b = self._data[self._pos:end]
        self._pos = end
        return b

    def read(self, n=-1):
        return self._take(n)

    def readline(self, n=-1):
        if self._pos >= self._cut:
            raise ConnectionResetError(104, "Connection reset by peer (injected)")
        i = self._data.find(b"\n", self._pos, self._cut)
        end = self._cut if i < 0 else i + 1
        if n is not None and n >= 0:
            end = min(end, self._pos + n)
        b = self._data[self._pos:end]
        self._pos = end
        return b


class SimNet(object):
    def __init__(self):
        self.files = {}        # url -> bytes
        self.fetch_faults = {}  # url -> ("missing",) | ("abort", cut)
        self.log = []          # (url, outcome)
        self.fired = []

    def reset(self, files, fetch_faults=None):
        self.files = files
        self.fetch_faults = fetch_faults or {}
        self.log = []
        self.fired = []

    def fetch(self, url):
        f = self.fetch_faults.get(url)
        if url not in self.files or (f and f[0] == "missing"):
            if f:
                self.fired.append((url, f[0]))
            self.log.append((url, "missing"))
            raise urllib.error.URLError("sim: no such resource %s" % url)
        data = self.files[url]
        headers = email.message.Message()
        headers["Content-Length"] = str(len(data))
        if f and f[0] == "abort":
            self.fired.append((url, "abort"))
            self.log.append((url, "abort"))
            fp = AbortingReader(data, min(f[1], max(len(data) - 1, 0)))
        else:
            self.log.append((url, "ok"))
            fp = io.BytesIO(data)
        return urllib.response.addinfourl(fp, headers, url, 200)


class SimHandler(urllib.request.BaseHandler):
    def __init__(self, net):
        self.net = net

    def sim_open(self, req):
        return self.net.fetch(req.full_url)


_NET = None


def install():
    """Install (once per process) and return the process-wide SimNet."""
    global _NET   # pylint: disable=global-statement
    if _NET is None:
        _NET = SimNet()
        opener = urllib.request.OpenerDirector()
        opener.add_handler(SimHandler(_NET))
        opener.add_handler(urllib.request.UnknownHandler())
        opener.add_handler(urllib.request.FileHandler())
        opener.add_handler(urllib.request.HTTPDefaultErrorHandler())
        opener.add_handler(urllib.request.HTTPErrorProcessor())
        urllib.request.install_opener(opener)
    return _NET
