"""Independent writer for System V / GNU and BSD style ar archives with short names."""

GLOBAL = b"!<arch>\n"


def header(name, size, mtime=0, uid=0, gid=0, mode=0o100644, style="gnu"):
    n = name.encode("utf-8") + (b"/" if style == "gnu" else b"")
    if len(n) > 16:
        raise ValueError("name too long for a short-name archive: %r" % name)
    h = (n.ljust(16) + (b"%d" % mtime).ljust(12) + (b"%d" % uid).ljust(6) +
         (b"%d" % gid).ljust(6) + (b"%o" % mode).ljust(8) + (b"%d" % size).ljust(10) + b"`\n")
    assert len(h) == 60
    return h


def build(members):
    """members: list of dicts(name, data, mtime, uid, gid, mode, style) -> bytes"""
    out = [GLOBAL]
    for m in members:
        d = m["data"]
        out.append(header(m["name"], len(d), m.get("mtime", 0), m.get("uid", 0),
                          m.get("gid", 0), m.get("mode", 0o100644), m.get("style", "gnu")))
        out.append(d)
        if len(d) % 2:
            out.append(b"\n")
    return b"".join(out)
