"""Delta debugging over step lists and greedy world reduction.  Pure; uses no PRNG."""
import copy
import time


class Budget(object):
    def __init__(self, max_execs=3000, max_wall=90.0):
        self.max_execs = max_execs
        self.deadline = time.monotonic() + max_wall
        self.execs = 0

    def spent(self):
        return self.execs >= self.max_execs or time.monotonic() > self.deadline


def ddmin(items, fails, budget):
    """Classic ddmin: smallest sublist (order kept) for which fails(sublist) is true."""
    items = list(items)
    n = 2
    while len(items) >= 1 and not budget.spent():
        if len(items) == 1:
            budget.execs += 1
            if fails([]):
                items = []
            break
        chunk = max(1, len(items) // n)
        reduced = False
        # try complements (remove one chunk)
        i = 0
        while i < len(items) and not budget.spent():
            cand = items[:i] + items[i + chunk:]
            budget.execs += 1
            if fails(cand):
                items = cand
                n = max(n - 1, 2)
                reduced = True
                # stay at same i
            else:
                i += chunk
        if not reduced:
            if chunk == 1:
                break
            n = min(len(items), n * 2)
    return items


def shrink_case(case, fails, candidates=None, trace_keys=("trace",), budget=None):
    """Minimise *case* (a JSON-able dict) while fails(case) stays true.

    1. ddmin over every list named in trace_keys;
    2. greedy application of property supplied one-step reductions
       (candidates(case) yields smaller cases) until a fixed point or budget end;
    3. ddmin again (world reduction often makes more steps removable).
    """
    budget = budget or Budget()
    case = copy.deepcopy(case)

    def run_dd():
        nonlocal case
        for key in trace_keys:
            if isinstance(case.get(key), list) and case[key]:
                def f(sub, key=key):
                    c = dict(case)
                    c[key] = sub
                    return fails(c)
                case[key] = ddmin(case[key], f, budget)

    run_dd()
    if candidates is not None:
        progress = True
        while progress and not budget.spent():
            progress = False
            for cand in candidates(case):
                if budget.spent():
                    break
                budget.execs += 1
                if fails(cand):
                    case = cand
                    progress = True
                    break
        run_dd()
    return case, budget.execs
