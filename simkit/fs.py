"""simkit.fs -- the local-filesystem seam (S1).

The code under test runs against a private scratch directory on tmpfs; what the simulator
owns is every *operation* on paths inside that directory: ``open`` (builtins/io), the file
object's write/flush/close, ``os.rename`` / ``os.replace`` / ``os.link``, ``os.unlink`` /
``os.remove``.  Each is journaled, numbered, and may be made to fail by the fault plan
(EACCES on open, ENOSPC / EIO on the i-th write with or without a partial write, EIO on
close, EXDEV / EIO on rename *before* it takes effect, EIO when the local file is read).
Cleanup calls (unlink) are journaled but never faulted.

Using the real directory (rather than an in-memory tree) keeps every other file API the
code might legitimately use working unchanged; the property's observables (file content,
left-over files) are read from the directory itself.  Nothing here is concurrent, so the
directory is a deterministic function of the operations performed.
"""
import builtins
import errno
import io
import os


class FaultPlan(object):
    """Which seam operation fails, decided entirely by the case file.

    spec: None or dict(kind=..., at=ordinal of that op kind, 0-based, ...)
      kinds: open_read, open_write, write, flush_close, rename
    """

    def __init__(self, specs=()):
        self.specs = [dict(s) for s in specs if s]
        self.fired = []

    def match(self, kind, ordinal, **attrs):
        for s in self.specs:
            if s.get("kind") == kind and s.get("at", 0) == ordinal and not s.get("_done"):
                s["_done"] = True
                self.fired.append(s)
                return s
        return None


class FileProxy(object):
    """Wraps a real file object opened inside the sandbox directory."""

    def __init__(self, fs, real, rel, writing):
        self.__dict__["_fs"] = fs
        self.__dict__["_real"] = real
        self.__dict__["_rel"] = rel
        self.__dict__["_writing"] = writing
        self.__dict__["_closed"] = False

    # -- writing
    def write(self, data):
        fs = self._fs
        n = fs.count("write")
        f = fs.plan.match("write", n)
        fs.boundary("write", self._rel)
        if f is None and fs.disk_full:
            fs.journal.append(("write!", self._rel, "enospc-persistent"))
            raise OSError(errno.ENOSPC, os.strerror(errno.ENOSPC))
        if f is not None and f.get("persistent"):
            fs.disk_full = True
        if f is not None:
            mode = f.get("mode", "enospc")
            if mode == "enospc_partial" and len(data) > 1:
                self._real.write(data[:len(data) // 2])
                try:
                    self._real.flush()
                except OSError:
                    pass
            fs.journal.append(("write!", self._rel, mode))
            raise OSError(errno.EIO if mode == "eio" else errno.ENOSPC,
                          os.strerror(errno.EIO if mode == "eio" else errno.ENOSPC))
        r = self._real.write(data)
        fs.journal.append(("write", self._rel, len(data)))
        return r

    def writelines(self, lines):
        for l in lines:
            self.write(l)

    def close(self):
        if self._closed:
            return None
        self.__dict__["_closed"] = True
        fs = self._fs
        if self._writing:
            n = fs.count("flush_close")
            f = fs.plan.match("flush_close", n)
            fs.boundary("close", self._rel)
            if f is None and fs.disk_full:
                f = {"kind": "flush_close", "mode": "enospc-persistent"}
            if f is not None:
                # the data may or may not have reached the disk; the handle is gone
                try:
                    self._real.close()
                except OSError:
                    pass
                fs.journal.append(("close!", self._rel))
                code = errno.ENOSPC if f.get("mode") == "enospc-persistent" else errno.EIO
                raise OSError(code, os.strerror(code))
        r = self._real.close()
        fs.journal.append(("close", self._rel))
        return r

    def __enter__(self):
        return self

    def __exit__(self, *exc):
        self.close()
        return False

    def __iter__(self):
        return iter(self._real)

    def __next__(self):
        return next(self._real)

    def __getattr__(self, name):
        return getattr(self._real, name)

    def __setattr__(self, name, value):
        setattr(self._real, name, value)

    def __del__(self):
        try:
            if not self._closed:
                self._real.close()
        except Exception:   # pylint: disable=broad-except
            pass


class SimFS(object):
    """Owns one sandbox directory for the duration of one execution."""

    def __init__(self, root, plan=None, on_boundary=None):
        self.root = os.path.realpath(root)
        self.plan = plan or FaultPlan()
        self.journal = []
        self.counts = {}
        self.on_boundary = on_boundary
        self.disk_full = False     # set by a persistent ENOSPC fault
        self.fds = {}              # descriptors opened with os.open on paths inside the root
        self._saved = None

    # -- helpers
    def inside(self, path):
        try:
            p = os.fspath(path)
        except TypeError:
            return None
        if isinstance(p, bytes):
            p = os.fsdecode(p)
        if not isinstance(p, str):
            return None
        ap = os.path.abspath(p)
        if ap == self.root or ap.startswith(self.root + os.sep):
            return os.path.relpath(ap, self.root)
        return None

    def count(self, kind):
        n = self.counts.get(kind, 0)
        self.counts[kind] = n + 1
        return n

    def boundary(self, op, rel):
        if self.on_boundary is not None:
            self.on_boundary(op, rel)

    # -- patched entry points
    def _open(self, file, mode="r", *args, **kwargs):
        if isinstance(file, int):
            rel = self.fds.get(file)        # os.fdopen() of a descriptor we saw being opened
        else:
            rel = self.inside(file)
        if rel is None:
            return self._saved["open"](file, mode, *args, **kwargs)
        writing = any(c in mode for c in "wax+")
        if writing:
            n = self.count("open_write")
            f = self.plan.match("open_write", n)
            self.boundary("open_write", rel)
            if f is not None:
                self.journal.append(("open!", rel, mode))
                raise PermissionError(errno.EACCES, os.strerror(errno.EACCES), os.fspath(file))
        else:
            n = self.count("open_read")
            f = None
            if os.path.exists(os.fspath(file)):
                f = self.plan.match("open_read", n)
            if f is not None:
                self.journal.append(("open!", rel, mode))
                raise OSError(errno.EIO, os.strerror(errno.EIO), os.fspath(file))
        real = self._saved["open"](file, mode, *args, **kwargs)
        self.journal.append(("open", rel, mode))
        return FileProxy(self, real, rel, writing)

    def _fileio(self, file, mode="r", *args, **kwargs):
        """io.FileIO(path, mode): the unbuffered variant of open()."""
        rel = self.fds.get(file) if isinstance(file, int) else self.inside(file)
        if rel is None:
            return self._saved["FileIO"](file, mode, *args, **kwargs)
        writing = any(c in mode for c in "wax+")
        if writing:
            n = self.count("open_write")
            f = self.plan.match("open_write", n)
            self.boundary("open_write", rel)
            if f is not None:
                self.journal.append(("open!", rel, mode))
                raise PermissionError(errno.EACCES, os.strerror(errno.EACCES), str(file))
        real = self._saved["FileIO"](file, mode, *args, **kwargs)
        self.journal.append(("open", rel, mode))
        return FileProxy(self, real, rel, writing)

    def _os_open(self, path, flags, *args, **kwargs):
        rel = self.inside(path)
        if rel is not None and flags & (os.O_WRONLY | os.O_RDWR):
            n = self.count("open_write")
            f = self.plan.match("open_write", n)
            self.boundary("open_write", rel)
            if f is not None:
                self.journal.append(("open!", rel, "os.open"))
                raise PermissionError(errno.EACCES, os.strerror(errno.EACCES), str(path))
        fd = self._saved["os_open"](path, flags, *args, **kwargs)
        if rel is not None and flags & (os.O_WRONLY | os.O_RDWR):
            self.fds[fd] = rel
            self.journal.append(("open", rel, "os.open"))
        return fd

    def _os_write(self, fd, data):
        rel = self.fds.get(fd)
        if rel is None:
            return self._saved["os_write"](fd, data)
        n = self.count("write")
        f = self.plan.match("write", n)
        self.boundary("write", rel)
        if f is None and self.disk_full:
            self.journal.append(("write!", rel, "enospc-persistent"))
            raise OSError(errno.ENOSPC, os.strerror(errno.ENOSPC))
        if f is not None:
            if f.get("persistent"):
                self.disk_full = True
            mode = f.get("mode", "enospc")
            if mode == "enospc_partial" and len(data) > 1:
                self._saved["os_write"](fd, data[:len(data) // 2])
            self.journal.append(("write!", rel, mode))
            code = errno.EIO if mode == "eio" else errno.ENOSPC
            raise OSError(code, os.strerror(code))
        r = self._saved["os_write"](fd, data)
        self.journal.append(("write", rel, len(data)))
        return r

    def _os_close(self, fd):
        self.fds.pop(fd, None)
        return self._saved["os_close"](fd)

    def _mover(self, name):
        def move(src, dst, *args, **kwargs):
            rs, rd = self.inside(src), self.inside(dst)
            if rs is None and rd is None:
                return self._saved[name](src, dst, *args, **kwargs)
            n = self.count("rename")
            f = self.plan.match("rename", n)
            self.boundary("rename", rd)
            if f is not None:
                code = errno.EXDEV if f.get("mode") == "exdev" else errno.EIO
                self.journal.append(("rename!", rs, rd))
                raise OSError(code, os.strerror(code), os.fspath(src), None, os.fspath(dst))
            r = self._saved[name](src, dst, *args, **kwargs)
            self.journal.append(("rename", rs, rd))
            return r
        return move

    def _remover(self, name):
        def remove(path, *args, **kwargs):
            rel = self.inside(path)
            r = self._saved[name](path, *args, **kwargs)
            if rel is not None:
                self.journal.append(("unlink", rel))
            return r
        return remove

    # -- installation
    def __enter__(self):
        self._saved = {"open": builtins.open, "io_open": io.open, "rename": os.rename,
                       "replace": os.replace, "unlink": os.unlink, "remove": os.remove,
                       "FileIO": io.FileIO, "os_open": os.open, "os_write": os.write,
                       "os_close": os.close}
        builtins.open = self._open
        io.open = self._open
        io.FileIO = self._fileio
        os.open = self._os_open
        os.write = self._os_write
        os.close = self._os_close
        os.rename = self._mover("rename")
        os.replace = self._mover("replace")
        os.unlink = self._remover("unlink")
        os.remove = self._remover("remove")
        return self

    def __exit__(self, *exc):
        s = self._saved
        builtins.open = s["open"]
        io.open = s["io_open"]
        io.FileIO = s["FileIO"]
        os.open = s["os_open"]
        os.write = s["os_write"]
        os.close = s["os_close"]
        os.rename = s["rename"]
        os.replace = s["replace"]
        os.unlink = s["unlink"]
        os.remove = s["remove"]
        return False
