"""simkit.core -- seeds, violations, outcomes, event logs.

One integer decides everything: every random choice of run *i* of property *P* is drawn from
``stream_rng(VERIF_SEED, P, i, <stream name>)``.  Executing a generated case consults no
PRNG at all, so a case file is a complete replay.
"""
import hashlib
import json
import random


def stream_rng(seed, prop, run, stream):
    h = hashlib.sha256(("%d/%s/%d/%s" % (seed, prop, run, stream)).encode()).digest()
    return random.Random(int.from_bytes(h[:16], "big"))


class Violation(Exception):
    """The implementation broke an oracle clause.

    clause: short stable name of the oracle clause (part of the violation class)
    op:     operation kind at which it was observed (part of the violation class)
    detail: free JSON-able description
    """

    def __init__(self, clause, op, detail=None):
        Exception.__init__(self, "%s @ %s: %s" % (clause, op, detail))
        self.clause = clause
        self.op = op
        self.detail = detail

    def as_dict(self):
        return {"clause": self.clause, "op": self.op, "detail": jsonable(self.detail)}

    @property
    def klass(self):
        return (self.clause, self.op)


class HarnessError(Exception):
    """The harness itself misbehaved (never to be confused with a violation)."""


def jsonable(x):
    if isinstance(x, (str, int, float, bool)) or x is None:
        return x
    if isinstance(x, bytes):
        return {"$b": x.decode("latin-1")}
    if isinstance(x, (list, tuple)):
        return [jsonable(i) for i in x]
    if isinstance(x, (set, frozenset)):
        return sorted((jsonable(i) for i in x), key=repr)
    if isinstance(x, dict):
        return {str(k): jsonable(v) for k, v in x.items()}
    return repr(x)


def enc_bytes(b):
    """bytes -> JSON-able (latin-1 string wrapped)."""
    return {"$b": b.decode("latin-1")}


def dec_bytes(x):
    if isinstance(x, dict) and "$b" in x:
        return x["$b"].encode("latin-1")
    raise ValueError("not an encoded bytes value: %r" % (x,))


class EventLog(object):
    """Append-only log of what happened in a run; its digest identifies the execution.

    Logging never draws from a PRNG and never reads a clock.
    """

    __slots__ = ("_h", "n", "keep", "items")

    def __init__(self, keep=False):
        self._h = hashlib.sha256()
        self.n = 0
        self.keep = keep
        self.items = []

    def add(self, *parts):
        s = json.dumps(jsonable(parts), sort_keys=True, ensure_ascii=True)
        self._h.update(s.encode())
        self._h.update(b"\n")
        self.n += 1
        if self.keep:
            self.items.append(s)

    def digest(self):
        return self._h.hexdigest()[:32]


def stable_hash(obj):
    """64-bit hash of a JSON-able object, independent of PYTHONHASHSEED."""
    s = json.dumps(jsonable(obj), sort_keys=True, ensure_ascii=True)
    return int.from_bytes(hashlib.blake2b(s.encode(), digest_size=8).digest(), "big")


class Outcome(object):
    """Result of executing one case."""

    def __init__(self):
        self.digest = ""
        self.violation = None      # dict from Violation.as_dict(), or None
        self.violation_case = None  # narrowed case reproducing the violation (optional)
        self.known = []            # ids of open known findings observed
        self.executions = 1        # number of SUT executions this run performed
        self.steps = 0             # scheduler decisions + seam operations
        self.faults = {}           # fault kind -> times it actually fired
        self.probes = {}           # probe name -> hits
        self.states = set()        # 64-bit hashes of distinct model states reached
        self.interleaving = 0      # 64-bit hash of the (actor, op-kind) sequence
        self.nontrivial = False    # by the property's stated rule
        self.nontrivial_keys = set()  # optional: hashes of distinct non-trivial evaluations
        self.extra = {}            # property specific counters (ints, summed)

    def bump(self, table, key, n=1):
        table[key] = table.get(key, 0) + n

    def probe(self, name, n=1):
        self.probes[name] = self.probes.get(name, 0) + n

    def fault(self, kind, n=1):
        self.faults[kind] = self.faults.get(kind, 0) + n

    def count(self, key, n=1):
        self.extra[key] = self.extra.get(key, 0) + n


_KNOWN_CACHE = {}


def open_findings(pid):
    """ids of the findings listed as open for this property in KNOWN_FINDINGS.json
    (read once; the file is never written at run time)."""
    import os
    if pid not in _KNOWN_CACHE:
        path = os.path.join(os.path.dirname(os.path.dirname(os.path.abspath(__file__))),
                            "KNOWN_FINDINGS.json")
        ids = set()
        if os.path.exists(path):
            with open(path) as f:
                data = json.load(f)
            for e in data.get("findings", []):
                if e.get("property") == pid and e.get("status") == "open":
                    ids.add(e["id"])
        _KNOWN_CACHE[pid] = frozenset(ids)
    return _KNOWN_CACHE[pid]
