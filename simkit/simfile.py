"""simkit.simfile -- the shared caller-supplied file object (S3).

A BytesIO that journals every positioned read so that a run can report which bytes of the
underlying archive each client caused to be touched.  It never faults: the properties that
use it promise nothing about short reads or truncated archives.
"""
import io


class SimFile(io.BytesIO):
    def __init__(self, data):
        io.BytesIO.__init__(self, data)
        self.reads = 0
        self.seeks = 0
        self.bytes_read = 0
        self.ranges = None      # optional: list of (start, end) touched, when tracking

    def track(self):
        self.ranges = []

    def _note(self, start, n):
        self.reads += 1
        self.bytes_read += n
        if self.ranges is not None and n:
            self.ranges.append((start, start + n))

    def read(self, *a):
        p = self.tell()
        b = io.BytesIO.read(self, *a)
        self._note(p, len(b))
        return b

    def read1(self, *a):
        p = self.tell()
        b = io.BytesIO.read1(self, *a)
        self._note(p, len(b))
        return b

    def readinto(self, buf):
        p = self.tell()
        n = io.BytesIO.readinto(self, buf)
        self._note(p, n or 0)
        return n

    def readline(self, *a):
        p = self.tell()
        b = io.BytesIO.readline(self, *a)
        self._note(p, len(b))
        return b

    def seek(self, *a):
        self.seeks += 1
        return io.BytesIO.seek(self, *a)
