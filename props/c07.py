"""C07 -- DebFile returns exactly what was packed and rejects malformed packages.

Simulated: a control-reader, a data-reader and 0..3 stream clients (holding file objects
returned by get_file and reading them in small chunks) share ONE file object through two
ArMembers and two lazily created TarFile readers (any of 5 x 5 compressions); the seeded
scheduler interleaves whole queries and partial chunk reads, so that decompressor rewinds and
seeks of one part land between reads of the other.  Storage defects (lost / duplicated parts)
must be rejected with DebError.  Every run is repeated under other hash seeds.
"""
import atexit
import bz2
import copy
import os
import shutil
import tempfile
import gzip
import hashlib
import io
import lzma
import tarfile

from simkit.core import (EventLog, Outcome, Violation, stream_rng, stable_hash, enc_bytes,
                         dec_bytes)
from simkit.simfile import SimFile
from simkit import arwriter

ID = "C07"
LEVEL = "exploration"
TIERS = {"quick": {"runs": 30000, "wall": 150}, "thorough": {"runs": 400000, "wall": 1500}}
HASHSEED_RUNS = {"quick": 300, "thorough": 3000}
RULE = ("world = seeded package: control fields, any subset of the 5 maintainer scripts with "
        "binary content, 0..8 data files (names with spaces / nested directories / non-ASCII, "
        "binary content), md5sums computed from them, tarballs in ustar / gnu / pax format, each "
        "part raw or gz/bz2/xz/lzma (5 x 5), ar member order permuted, optional extra members; "
        "or a structurally defective member set (no debian-binary / control / data part, two "
        "candidates for a part); trace = seeded interleaving (<= 40 steps) of debcontrol / "
        "scripts / md5sums / has_file / in / get_content / [] / name listing under the three "
        "path spellings and chunked reads of open member streams; an evaluation is one run; "
        "distinct = distinct (actor, op) sequence hash; non-trivial = both parts were read and "
        "at least one stream was read in more than one chunk, or the package was defective"
        '; later additions: open by file name, an earlier package at the same path with a live reader, a second (well-formed or defective) package opened mid-run, payloads over 8 KiB, the package object dropped before its streams are drained, clients editing returned objects, abandoned iterations, an empty second candidate for a part, control values with rare line-break characters, queries for names that are almost a packed name')
REAL = ["debian.debfile (DebFile, DebPart, DebControl, DebData)", "debian.arfile",
        "debian.deb822.Deb822 (for debcontrol())", "tarfile, gzip, bz2, lzma (stdlib)"]
STUB = ["the caller-supplied file object: simkit.simfile.SimFile (a journaling BytesIO)"]
ASSUMPTIONS = [
    "packages are built by an independent assembler (stdlib tarfile for the tarballs, a "
    "15-line ar writer); member names in tarballs use the './name' form dpkg-deb produces",
    "control field values are single-line; file names are UTF-8 without leading blanks or "
    "newlines (md5sums cannot represent those)",
    "no byte corruption is injected: the property promises rejection only for structurally "
    "defective member sets",
]
PROBES = ["package_object_dropped_before_streams_drained", "file_replaced_under_live_reader", "client_edits_returned_object",
          "two_packages_open_at_once", "other_client_opens_defective_package",
          "iteration_abandoned_early", "opened_by_filename", "payload_over_8k_read_in_chunks",
          "parts_compressed_differently_read_alternately", "one_byte_chunks_while_control_requeried",
          "uncompressed_control_tar", "debian_binary_not_first", "defective_package_rejected",
          "two_streams_same_part_interleaved", "name_with_space", "nested_directory",
          "pax_format", "extra_ar_member", "long_name", "empty_data_tar", "query_for_a_name_that_is_almost_a_packed_one", "part_over_1_MiB"]

_STATE = {}


def _scratch():
    pid = os.getpid()
    if _STATE.get("pid") != pid:
        base = os.environ.get("VERIF_SCRATCH")
        if not base:
            base = "/dev/shm" if os.access("/dev/shm", os.W_OK) else tempfile.gettempdir()
        root = tempfile.mkdtemp(prefix="verif-c07-%d-" % pid, dir=base)
        _STATE.update(pid=pid, root=root)
        atexit.register(shutil.rmtree, root, True)
        try:
            from multiprocessing import util as _mpu
            _mpu.Finalize(None, shutil.rmtree, args=(root, True), exitpriority=10)
        except Exception:   # pylint: disable=broad-except
            pass
    return _STATE["root"]


COMP = ["", "gz", "bz2", "xz", "lzma"]
SCRIPTS = ["preinst", "postinst", "prerm", "postrm", "config"]
FNAMES = ["usr/bin/tool", "usr/share/doc/pkg/copyright", "etc/pkg.conf", "file with spaces",
          "usr/share/my pkg/a b.txt", "opt/ünï/däta.bin", "x", "usr/lib/libx.so.1",
          "var/lib/" + "n" * 90 + "/long-name-file", "usr/share/doc/pkg/changelog.gz",
          "boot/.hidden", "usr/bin/tool2", "usr/share/odd\x0cname", "usr/share/ls\u2028name",
          "opt/nel\x85x"]
DEFECTS = [None] * 22 + ["no_info", "no_control", "no_data",
           "two_control", "two_data", "no_control_no_data", "two_data_raw",
           # the second candidate is an EMPTY member placed after all required parts
           "two_data_empty", "two_control_empty"]


def _file_data(f):
    if f.get("rand"):
        import random
        return random.Random(f["rand"][0]).randbytes(f["rand"][1])
    return dec_bytes(f["data"])


def _bytes(rng, n):
    kind = rng.random()
    if kind < 0.4:
        return bytes(rng.randrange(256) for _ in range(n))
    return (b"line %d\n" % rng.randrange(1000)) * (n // 8 + 1)


def generate(seed, run, tier):
    rw = stream_rng(seed, ID, run, "world")
    rs = stream_rng(seed, ID, run, "swarm")
    rq = stream_rng(seed, ID, run, "sched")
    fields = [["Package", rw.choice(["pkg", "lib-x1", "a+b"])], ["Version", rw.choice(
        ["1.0-1", "2:0.1~rc1"])], ["Architecture", rw.choice(["all", "amd64"])],
        ["Maintainer", "Ünï Code <u@example.org>"],
        # characters str.splitlines() breaks at are ordinary characters of a control value
        ["Description", rw.choice(["short text"] * 4 + ["form\x0cfeed text", "nel\x85x",
                                                        "ls\u2028 x", "fs\x1c gs\x1d x"])]]
    if rw.random() < 0.5:
        fields.insert(rw.randrange(len(fields)), ["Depends", "libc6 (>= 2.3), x | y"])
    scripts = {}
    for s in SCRIPTS:
        if rw.random() < 0.4:
            scripts[s] = enc_bytes(b"#!/bin/sh\n" + _bytes(rw, rw.choice([0, 5, 40])))
    names = list(FNAMES)
    rw.shuffle(names)
    files = []
    big = rs.random() < 0.2     # payloads beyond the decompressors' 8 KiB read chunk
    for n in names[:rs.choice([0, 1, 2, 3, 5, 8])]:
        size = rw.choice([0, 1, 7, 100, 600, 2000])
        if big and rw.random() < 0.5:
            size = rw.choice([9000, 20000, 70000])
        files.append({"name": n, "data": enc_bytes(_bytes(rw, size))})
    if files and rs.random() < 0.004:
        # one incompressible file of more than 1 MiB: the data part is huge under every
        # compression (kept as a recipe, not as bytes)
        j_ = rw.randrange(len(files))
        files[j_] = {"name": files[j_]["name"], "data": enc_bytes(b""),
                     "rand": [rw.randrange(1 << 30), 1200000 + rw.randrange(99999)]}
    world = {"fields": fields, "scripts": scripts, "files": files,
             "tarfmt": rs.choice(["ustar", "gnu", "gnu", "pax"]),
             "ccomp": rs.choice(COMP), "dcomp": rs.choice(COMP),
             "order": rs.choice([[0, 1, 2], [0, 2, 1], [1, 0, 2], [2, 1, 0], [1, 2, 0]]),
             "extra": rs.choice([None, None, "_gpgorigin", "zz-extra"]),
             "defect": rs.choice(DEFECTS), "md5": rs.random() < 0.9,
             "open": rs.choice(["fileobj", "fileobj", "fileobj", "filename"]),
             # a second, different package opened by another client while the first one is
             # in use (well-formed, or defective and therefore rejected)
             "other": rs.choice([None, None, "good", "good", "no_data", "no_control"]),
             # an earlier package lived at the same path, its reader is still alive, then
             # the file was replaced (only meaningful when opened by file name)
             "prior_at_path": rs.random() < 0.5,
             # clients edit the objects that queries handed to them
             "edit_results": rs.random() < 0.5,
             # the client keeps only the file objects it got and lets the package object go
             "drop_package_before_drain": rs.random() < 0.35}
    steps = []
    nfiles = max(len(files), 1)
    w = {"debcontrol": 2, "scripts": 1, "md5sums": 2, "has": 3, "content": 4, "names": 1,
         "iter_partial": rs.choice([0, 1, 3]), "open_other": rs.choice([0, 1, 2]),
         "open_stream": rs.choice([0, 2, 4]), "read_stream": rs.choice([0, 4, 10]),
         "missing": 1, "cget": 2}
    kinds = [k for k, v in w.items() for _ in range(v)]
    chunk = rs.choice([1, 1, 3, 64, 500, 5000])
    for _ in range(rs.choice([3, 10, 20, 40] if tier == "quick" else [3, 10, 20, 40, 80])):
        k = rq.choice(kinds)
        st = {"op": k}
        if k == "md5sums":
            st["enc"] = rq.choice([None, "utf-8"])
        elif k in ("has", "content", "open_stream"):
            st.update(i=rq.randrange(nfiles), sp=rq.randrange(3))
            st["how"] = rq.choice(["a", "b"])
            if k == "content":
                st["enc"] = rq.choice([None, None, "latin-1"])
        elif k == "read_stream":
            st.update(s=rq.randrange(3), n=chunk)
        elif k == "cget":
            st["name"] = rq.choice(["control", "md5sums"] + SCRIPTS)
            st["sp"] = rq.randrange(3)
            st["stream"] = rq.random() < 0.3
        elif k == "missing":
            st["i"] = rq.randrange(nfiles)
        elif k in ("names", "iter_partial"):
            st["part"] = rq.choice(["data", "control"])
            st["k"] = rq.choice([1, 1, 2, 3])
        steps.append(st)
    rc = stream_rng(seed, ID, run, "close")
    if rc.random() < 0.012:
        # the package, opened by file name, is closed while a stream over a large
        # incompressible file (more than any read-ahead) is part-read, then read on
        world.update(open="filename", defect=None, other=None, dcomp=rc.choice(["gz", "xz", "gz", "bz2"]),
                     drop_package_before_drain=False)
        big_ = {"name": names[0], "data": enc_bytes(b""),
                "rand": [rc.randrange(1 << 30), 150000 + rc.randrange(350000)]}
        world["files"] = [big_] + [f_ for f_ in files if f_["name"] != names[0]][:2]
        n_ = rc.choice([1000, 5000, 40000, 150000])
        steps = [{"op": "open_stream", "i": 0, "sp": rc.randrange(3), "how": "a"}]
        steps += [{"op": "read_stream", "s": 0, "n": n_} for _ in range(rc.randrange(1, 4))]
        steps += [{"op": "close_package"}]
        steps += [{"op": "read_stream", "s": 0, "n": n_} for _ in range(rc.randrange(1, 4))]
    return {"world": world, "trace": steps}


def describe(case):
    w = case["world"]
    return {"fields": w["fields"], "scripts": sorted(w["scripts"]),
            "files": [[f["name"], f["rand"][1] if f.get("rand") else len(f["data"]["$b"])]
                      for f in w["files"]],
            "tar_format": w["tarfmt"], "control_compression": w["ccomp"] or "none",
            "data_compression": w["dcomp"] or "none", "member_order": w["order"],
            "extra_member": w["extra"], "defect": w["defect"], "trace": case["trace"][:30],
            "trace_len": len(case["trace"])}


# --------------------------------------------------------------------------- assembler

def _tar(entries, fmt):
    """entries: list of (name, data-or-None-for-dir, mode)"""
    bio = io.BytesIO()
    f = {"ustar": tarfile.USTAR_FORMAT, "gnu": tarfile.GNU_FORMAT, "pax": tarfile.PAX_FORMAT}[fmt]
    with tarfile.open(fileobj=bio, mode="w", format=f) as t:
        for name, data, mode in entries:
            ti = tarfile.TarInfo(name)
            ti.mtime = 0
            ti.mode = mode
            ti.uname = ti.gname = "root"
            if data is None:
                ti.type = tarfile.DIRTYPE
                t.addfile(ti)
            else:
                ti.size = len(data)
                t.addfile(ti, io.BytesIO(data))
    return bio.getvalue()


def _compress(data, c):
    if c == "gz":
        return gzip.compress(data, mtime=0)
    if c == "bz2":
        return bz2.compress(data)
    if c == "xz":
        return lzma.compress(data, format=lzma.FORMAT_XZ)
    if c == "lzma":
        return lzma.compress(data, format=lzma.FORMAT_ALONE)
    return data


def build(world):
    fmt = world["tarfmt"]
    if fmt == "ustar":
        # ustar cannot store non-ASCII or >100 char names portably: keep what fits
        pass
    files = [(f["name"], _file_data(f)) for f in world["files"]]
    if fmt == "ustar":
        files = [(n, d) for n, d in files if len(n) < 90 and n.isascii()]
    scripts = {k: dec_bytes(v) for k, v in world["scripts"].items()}
    control_text = "".join("%s: %s\n" % (k, v) for k, v in world["fields"])
    md5 = "".join("%s  %s\n" % (hashlib.md5(d).hexdigest(), n) for n, d in files)
    centries = [("./", None, 0o755), ("./control", control_text.encode("utf-8"), 0o644)]
    if world.get("md5", True):
        centries.append(("./md5sums", md5.encode("utf-8"), 0o644))
    for k in SCRIPTS:
        if k in scripts:
            centries.append(("./" + k, scripts[k], 0o755))
    dentries = [("./", None, 0o755)]
    seen = set()
    for n, d in files:
        parts = n.split("/")
        for i in range(1, len(parts)):
            dname = "/".join(parts[:i])
            if dname not in seen:
                seen.add(dname)
                dentries.append(("./" + dname, None, 0o755))
        dentries.append(("./" + n, d, 0o644))
    ctar = _compress(_tar(centries, fmt), world["ccomp"])
    dtar = _compress(_tar(dentries, fmt), world["dcomp"])
    cname = "control.tar" + ("." + world["ccomp"] if world["ccomp"] else "")
    dname = "data.tar" + ("." + world["dcomp"] if world["dcomp"] else "")
    three = [("debian-binary", b"2.0\n"), (cname, ctar), (dname, dtar)]
    members = [three[i] for i in world["order"]]
    d = world.get("defect")
    if d == "no_info":
        members = [m for m in members if m[0] != "debian-binary"]
    elif d == "no_control":
        members = [m for m in members if not m[0].startswith("control")]
    elif d == "no_data":
        members = [m for m in members if not m[0].startswith("data")]
    elif d == "no_control_no_data":
        members = [m for m in members if m[0] == "debian-binary"]
    elif d == "two_control":
        other = "xz" if world["ccomp"] != "xz" else "gz"
        members.append(("control.tar." + other, _compress(_tar(centries, fmt), other)))
    elif d == "two_data":
        other = "bz2" if world["dcomp"] != "bz2" else "gz"
        members.insert(1, ("data.tar." + other, _compress(_tar(dentries, fmt), other)))
    elif d == "two_data_raw":
        if world["dcomp"] == "":
            members.append(("data.tar.gz", _compress(_tar(dentries, fmt), "gz")))
        else:
            members.append(("data.tar", _tar(dentries, fmt)))
    elif d == "two_data_empty":
        members.append(("data.tar.gz" if world["dcomp"] != "gz" else "data.tar", b""))
    elif d == "two_control_empty":
        members.append(("control.tar.gz" if world["ccomp"] != "gz" else "control.tar", b""))
    if world.get("extra"):
        members.append((world["extra"], b"extra member\n"))
    blob = arwriter.build([{"name": n, "data": b, "mtime": 1342943816, "style": "bsd"}
                           for n, b in members])   # dpkg-deb writes names without "/"
    model = {"control_text": control_text, "fields": world["fields"], "scripts": scripts,
             "files": files, "md5": {n: hashlib.md5(d).hexdigest() for n, d in files},
             "has_md5": world.get("md5", True), "dirs": sorted(seen),
             "cfiles": dict([(n[2:], d) for n, d, _ in centries if d is not None])}
    return blob, model


def _data_order(model):
    """Names of the data tarball in the order they were added (directories first time seen)."""
    out = []
    seen = set()
    for n, _ in model["files"]:
        parts = n.split("/")
        for i in range(1, len(parts)):
            d = "/".join(parts[:i])
            if d not in seen:
                seen.add(d)
                out.append("./" + d)
        out.append("./" + n)
    return out


def _control_order(model):
    names = ["control"]
    if model["has_md5"]:
        names.append("md5sums")
    for k in SCRIPTS:
        if k in model["scripts"]:
            names.append(k)
    return names


SPELL = [lambda n: n, lambda n: "./" + n, lambda n: "/" + n]


def _call(fn, *a, **kw):
    try:
        return ("ok", fn(*a, **kw))
    except Exception as e:   # pylint: disable=broad-except
        return ("exc", type(e).__name__, str(e)[:120])


def execute(case):
    from debian import debfile
    out = Outcome()
    log = EventLog()
    world = case["world"]
    blob, model = build(world)
    shared = SimFile(blob)
    stale = []
    if world.get("open") == "filename":
        path = os.path.join(_scratch(), "p.deb")
        if world.get("prior_at_path"):
            pw = {"fields": [["Package", "prior-pkg"], ["Version", "0.1"], ["Architecture", "all"]],
                  "scripts": {"prerm": enc_bytes(b"#!/bin/sh\n# prior\n")},
                  "files": [{"name": "usr/share/prior/file", "data": enc_bytes(b"prior data\n" * 40)}],
                  "tarfmt": "gnu", "ccomp": "", "dcomp": "gz", "order": [0, 1, 2],
                  "extra": None, "md5": True, "defect": None}
            pblob, pmodel = build(pw)
            fd = os.open(path, os.O_WRONLY | os.O_CREAT | os.O_TRUNC, 0o644)
            os.write(fd, pblob)
            os.close(fd)
            old = debfile.DebFile(filename=path)
            if [[k_, v_] for k_, v_ in old.debcontrol().items()] != pmodel["fields"] or \
                    old.data.get_content("usr/share/prior/file") != b"prior data\n" * 40:
                raise Violation("query-result-differs-from-what-was-packed", "debcontrol",
                                {"which": "prior package"})
            stale.append(old)
            tmp = path + ".tmp"
            fd = os.open(tmp, os.O_WRONLY | os.O_CREAT | os.O_TRUNC, 0o644)
            os.write(fd, blob)
            os.close(fd)
            os.replace(tmp, path)
            out.probe("file_replaced_under_live_reader")
        else:
            fd = os.open(path, os.O_WRONLY | os.O_CREAT | os.O_TRUNC, 0o644)
            os.write(fd, blob)
            os.close(fd)
        r = _call(debfile.DebFile, filename=path)
        out.probe("opened_by_filename")
    else:
        r = _call(debfile.DebFile, fileobj=shared)
    defect = world.get("defect")
    log.add("open", defect, r[0], r[1] if r[0] == "exc" else None)
    if defect:
        for d_ in stale:
            d_.close()
        out.probe("defective_package_rejected")
        out.nontrivial = True
        if r[0] != "exc" or r[1] != "DebError":
            raise Violation("defective-package-not-rejected-with-DebError", "open",
                            {"defect": defect, "got": r[:2] if r[0] == "exc" else "accepted"})
        out.digest = log.digest()
        out.interleaving = stable_hash(["defect", defect, world["ccomp"], world["dcomp"],
                                        world["order"], world.get("extra")])
        out.states.add(out.interleaving)
        return out
    if r[0] != "ok":
        raise Violation("well-formed-package-rejected", "open", {"error": r[1:]})
    deb = r[1]
    if world["order"][0] != 0:
        out.probe("debian_binary_not_first")
    if world["ccomp"] == "":
        out.probe("uncompressed_control_tar")
    if any(f_.get("rand") for f_ in world["files"]):
        out.probe("part_over_1_MiB")
    if world["tarfmt"] == "pax":
        out.probe("pax_format")
    if world.get("extra"):
        out.probe("extra_ar_member")
    files = model["files"]
    if not files:
        out.probe("empty_data_tar")
    if any(" " in n for n, _ in files):
        out.probe("name_with_space")
    if any(n.count("/") >= 2 for n, _ in files):
        out.probe("nested_directory")
    if any(len(n) > 100 for n, _ in files):
        out.probe("long_name")
    if deb.version != b"2.0":
        raise Violation("version-differs", "open", {"got": deb.version})
    streams = []          # dicts(f, data, pos, part, reads)
    closed = False
    others = []
    other_world = {"fields": [["Package", "other-pkg"], ["Version", "9.9"], ["Architecture", "all"]],
                   "scripts": {"postrm": enc_bytes(b"#!/bin/sh\nexit 0\n")},
                   "files": [{"name": "usr/share/other/file", "data": enc_bytes(b"other data\n")}],
                   "tarfmt": "gnu", "ccomp": "gz", "dcomp": "xz", "order": [0, 1, 2],
                   "extra": None, "md5": True,
                   "defect": None if world.get("other") == "good" else world.get("other")}
    inter = []
    touched = set()
    last_part = None
    multi_chunk = False

    def expect(si, op, got, want, **more):
        if got != ("ok", want):
            d = {"step": si, "got": got if got[0] == "exc" else ("ok", repr(got[1])[:300]),
                 "want": repr(want)[:300]}
            d.update(more)
            raise Violation("query-result-differs-from-what-was-packed", op, d)

    try:
        for si, st in enumerate(case["trace"]):
            op = st["op"]
            part = None
            if op == "debcontrol":
                part = "control"
                holder = {}

                def q():
                    holder["d"] = deb.debcontrol()
                    return [[k, v] for k, v in holder["d"].items()]
                got = _call(q)
                expect(si, op, got, model["fields"])
                if world.get("edit_results"):
                    # what a query returns belongs to the caller
                    holder["d"]["Package"] = "edited-by-client"
                    holder["d"]["X-Added"] = "1"
                    out.probe("client_edits_returned_object")
            elif op == "scripts":
                part = "control"
                got = _call(deb.scripts)
                expect(si, op, got, model["scripts"])
                if world.get("edit_results"):
                    got[1]["postinst"] = b"edited"
                    got[1].pop("prerm", None)
            elif op == "md5sums":
                part = "control"
                enc = st.get("enc")
                got = _call(deb.md5sums, encoding=enc) if enc else _call(deb.md5sums)
                if not model["has_md5"]:
                    if got[0] != "exc" or got[1] != "DebError":
                        raise Violation("missing-md5sums-not-reported-with-DebError", op,
                                        {"step": si, "got": got[:2]})
                else:
                    want = {(n if enc else n.encode("utf-8")): h for n, h in model["md5"].items()}
                    expect(si, op, got, want, encoding=enc)
                    if world.get("edit_results"):
                        got[1]["edited" if enc else b"edited"] = "0" * 32
            elif op == "cget":
                part = "control"
                name = st["name"]
                sp = SPELL[st["sp"]](name)
                present = name in model["cfiles"]
                got = _call(deb.control.has_file, sp)
                expect(si, "has_file", got, present, name=sp)
                if present:
                    if st.get("stream") and len(streams) < 3:
                        g = _call(deb.control.get_file, sp)
                        if g[0] != "ok":
                            raise Violation("get_file-failed", op, {"step": si, "name": sp,
                                                                    "error": g[1:]})
                        streams.append({"f": g[1], "data": model["cfiles"][name], "pos": 0,
                                        "part": "control", "reads": 0})
                    else:
                        expect(si, "get_content", _call(deb.control.get_content, sp),
                               model["cfiles"][name], name=sp)
            elif op in ("has", "content", "open_stream"):
                part = "data"
                if not files:
                    got = _call(deb.data.has_file, SPELL[st["sp"]]("no-such-file"))
                    expect(si, "has_file", got, False)
                else:
                    name, data = files[st["i"] % len(files)]
                    sp = SPELL[st["sp"]](name)
                    if op == "has":
                        got = _call(deb.data.has_file, sp) if st["how"] == "a" else \
                            _call(lambda: sp in deb.data)
                        expect(si, op, got, True, name=sp)
                    elif op == "content":
                        enc = st.get("enc")
                        if enc:
                            got = _call(deb.data.get_content, sp, encoding=enc)
                            # text mode = Python's text layer over the packed bytes
                            want_text = io.TextIOWrapper(io.BytesIO(data), encoding=enc).read()
                            expect(si, op, got, want_text, name=sp, encoding=enc)
                        else:
                            got = _call(deb.data.get_content, sp) if st["how"] == "a" else \
                                _call(lambda: deb.data[sp])
                            expect(si, op, got, data, name=sp)
                    elif len(streams) < 3:
                        g = _call(deb.data.get_file, sp)
                        if g[0] != "ok":
                            raise Violation("get_file-failed", op, {"step": si, "name": sp,
                                                                    "error": g[1:]})
                        if any(s["part"] == "data" for s in streams):
                            out.probe("two_streams_same_part_interleaved")
                        streams.append({"f": g[1], "data": data, "pos": 0, "part": "data",
                                        "reads": 0})
            elif op == "missing":
                part = "data"
                for sp in ("no/such/file", "./no/such/file", "/usr"[:1] + "nope"):
                    expect(si, op, _call(deb.data.has_file, sp), False, name=sp)
                # the empty path: whatever the answer, the three spellings agree, and a name
                # that "is there" can be asked for without KeyError
                ans = [_call(deb.data.has_file, q_) for q_ in ("", "./", "/")]
                if len(set(map(repr, ans))) != 1:
                    raise Violation("query-result-differs-from-what-was-packed", op,
                                    {"step": si, "name": "", "answers_for_three_spellings": ans})
                if ans[0] == ("ok", True):
                    g_ = _call(deb.data.get_file, "")
                    if g_[0] == "exc" and g_[1] == "KeyError":
                        raise Violation("query-result-differs-from-what-was-packed", op,
                                        {"step": si, "name": "", "has_file": True,
                                         "get_file": g_[:2]})
                # names that are almost a packed file's name
                packed = set(n_ for n_, _ in model["files"]) | set(model["dirs"])
                if model["files"]:
                    n_ = model["files"][st.get("i", 0) % len(model["files"])][0]
                    for near in (n_ + "/", n_[:-1], n_ + "x", n_.swapcase(), n_ + " "):
                        if near in packed or near.rstrip("/") in packed and near != n_ + "/" \
                                or not near:
                            continue
                        for pre in ("", "./", "/"):
                            expect(si, op, _call(deb.data.has_file, pre + near), False,
                                   name=pre + near)
                            expect(si, op, _call(lambda: (pre + near) in deb.data), False,
                                   name=pre + near)
                    out.probe("query_for_a_name_that_is_almost_a_packed_one")
            elif op == "open_other":
                if not world.get("other") or len(others) >= 2:
                    continue
                oblob, omodel = build(other_world)
                r2 = _call(debfile.DebFile, fileobj=SimFile(oblob))
                if other_world["defect"]:
                    if r2[0] != "exc" or r2[1] != "DebError":
                        raise Violation("defective-package-not-rejected-with-DebError", "open",
                                        {"step": si, "defect": other_world["defect"]})
                    out.probe("other_client_opens_defective_package")
                else:
                    if r2[0] != "ok":
                        raise Violation("well-formed-package-rejected", "open",
                                        {"step": si, "error": r2[1:]})
                    others.append(r2[1])
                    got = _call(lambda: [[k_, v_] for k_, v_ in r2[1].debcontrol().items()])
                    expect(si, "debcontrol", got, omodel["fields"], which="other package")
                    out.probe("two_packages_open_at_once")
                part = "other"
            elif op == "iter_partial":
                part = st.get("part", "data")
                k = st.get("k", 1)
                p_ = deb.data if part == "data" else deb.control
                order = (["."] + [n_ for n_ in _data_order(model)]) if part == "data" else \
                    ["."] + ["./" + n_ for n_ in _control_order(model)]

                def take():
                    it = iter(p_)
                    res_ = []
                    for _ in range(min(k, len(order))):
                        x = next(it)
                        res_.append(x.rstrip("/") if x != "./" else ".")
                    return res_
                got = _call(take)
                expect(si, op, got, order[:min(k, len(order))])
                out.probe("iteration_abandoned_early")
            elif op == "names":
                part = st.get("part", "data")
                if part == "data":
                    want = sorted(["."] + ["./" + d for d in model["dirs"]] +
                                  ["./" + n for n, _ in files])
                    got = _call(lambda: sorted(x.rstrip("/") if x != "./" else "."
                                               for x in deb.data))
                else:
                    want = sorted(["."] + ["./" + n for n in model["cfiles"]])
                    got = _call(lambda: sorted(x.rstrip("/") if x != "./" else "."
                                               for x in deb.control))
                expect(si, op, got, want)
            elif op == "close_package":
                # what a stream handed out earlier does after this is not specified beyond
                # "never bytes that were not packed": exact bytes, or an error
                deb.close()
                closed = True
                part = "other"
                out.probe("package_closed_while_stream_part_read")
            elif op == "read_stream":
                if not streams:
                    continue
                s = streams[st["s"] % len(streams)]
                if s.get("dead"):
                    continue
                part = s["part"]
                n = st["n"]
                got = _call(s["f"].read, n)
                want = s["data"][s["pos"]:s["pos"] + n]
                if closed and got[0] == "exc":
                    s["dead"] = True
                    out.probe("stream_refused_after_close")
                    continue
                if closed and got == ("ok", want) and want:
                    out.probe("stream_read_on_after_close")
                if got != ("ok", want):
                    raise Violation("stream-read-differs-from-what-was-packed", op,
                                    {"step": si, "offset": s["pos"], "n": n,
                                     "got": got if got[0] == "exc" else repr(got[1])[:200],
                                     "want": repr(want)[:200]})
                s["pos"] += len(want)
                s["reads"] += 1
                if len(s["data"]) > 8192 and s["reads"] >= 2:
                    out.probe("payload_over_8k_read_in_chunks")
                if s["reads"] >= 2 and want:
                    multi_chunk = True
                if n == 1 and inter and inter[-1][0] == "control" and part == "data":
                    out.probe("one_byte_chunks_while_control_requeried")
            else:
                continue
            out.steps += 1
            inter.append((part, op))
            if part != "other":
                touched.add(part)
            if last_part and part and last_part != part and world["ccomp"] != world["dcomp"]:
                out.probe("parts_compressed_differently_read_alternately")
            last_part = part
            log.add(si, op, part, st.get("i"), st.get("sp"), st.get("n"))
            out.states.add(stable_hash([sorted((s["part"], s["pos"]) for s in streams),
                                        sorted(touched)]))
        if world.get("drop_package_before_drain") and streams and not others:
            import gc
            deb = None
            r = None
            stale = []
            gc.collect()
            out.probe("package_object_dropped_before_streams_drained")
        # drain every stream: the rest must be exactly the rest
        for k, s in enumerate(streams):
            if s.get("dead"):
                continue
            got = _call(s["f"].read)
            if closed and got[0] == "exc":
                continue
            if got != ("ok", s["data"][s["pos"]:]):
                raise Violation("stream-read-differs-from-what-was-packed", "drain",
                                {"stream": k, "offset": s["pos"]})
    finally:
        for s in streams:
            try:
                s["f"].close()
            except Exception:   # pylint: disable=broad-except
                pass
        for d_ in [deb] + others + stale:
            if d_ is None:
                continue
            try:
                d_.close()
            except Exception:   # pylint: disable=broad-except
                pass
    out.count("shared_fileobj_reads", shared.reads)
    out.count("shared_fileobj_seeks", shared.seeks)
    out.digest = log.digest()
    out.interleaving = stable_hash(inter)
    out.nontrivial = len(touched) == 2 and multi_chunk
    return out


def shrink_candidates(case):
    w = case["world"]
    for i in range(len(w["files"])):
        c = copy.deepcopy(case)
        del c["world"]["files"][i]
        yield c
    for k in list(w["scripts"]):
        c = copy.deepcopy(case)
        del c["world"]["scripts"][k]
        yield c
    for key, val in (("ccomp", ""), ("dcomp", ""), ("tarfmt", "gnu"), ("order", [0, 1, 2]),
                     ("extra", None), ("md5", True)):
        if w.get(key) != val:
            c = copy.deepcopy(case)
            c["world"][key] = val
            yield c
    for i, f in enumerate(w["files"]):
        if f.get("rand"):
            c = copy.deepcopy(case)
            c["world"]["files"][i]["rand"][1] = f["rand"][1] // 2
            if c["world"]["files"][i]["rand"][1] >= 1:
                yield c
            continue
        d = dec_bytes(f["data"])
        if len(d) > 1:
            c = copy.deepcopy(case)
            c["world"]["files"][i]["data"] = enc_bytes(d[:len(d) // 2])
            yield c
