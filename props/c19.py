"""C19 -- update_file converges to the published content and never corrupts the local file.

Simulated: one updater client against a repository (SimNet, in-memory transport behind the
real urllib) and a local disk (SimFS, fault-injecting operation layer over a private tmpfs
directory).  For each sampled world the fault-free execution is run first; then *every*
applicable single fault is re-run (exhaustive per world), plus sampled pairs.
"""
import atexit
import contextlib
import difflib
import gzip
import hashlib
import io
import os
import shutil
import tempfile

from simkit.core import EventLog, Outcome, Violation, stream_rng, stable_hash
from simkit.fs import SimFS, FaultPlan
from simkit import net as simnet

ID = "C19"
LEVEL = "fault_enumeration"
TIERS = {"quick": {"runs": 2000, "wall": 150}, "thorough": {"runs": 40000, "wall": 1500}}
HASHSEED_RUNS = {"quick": 60, "thorough": 600}    # S7: identical event logs under other hash seeds
TRACE_KEYS = ("faults",)
RUN_TIMEOUT = 240     # one run = fault-free + every single fault (+ pairs) on one world
RULE = ("worlds = seeded random file histories v0..vn (n<=6, <=12 lines each) published as "
        "ed-style patches + pdiff Index (SHA1 / SHA256 / both, permuted fields, optional "
        "short history window) + gzip full file, local copy absent / at any vi / current / "
        "foreign; per world: the fault-free execution, then every applicable single fault "
        "(transport, payload, index, filesystem) and sampled fault pairs; an evaluation is one "
        "update_file execution; distinct = distinct (world-shape, fault-sequence, outcome) "
        "hash; non-trivial = the execution fetched at least the index or performed a write"
        '; later additions: stale local.new, index columns separated by tabs / several blanks, a second epoch (one more version published, second update), recovery update after every raised fault, persistent disk-full, payloads over 8 KiB and over 128 KiB of multi-byte text, chains of 12 patches, patch names that are not in lexicographic order (for the two costly kinds of world the single faults are an even spread of 40 resp. 12)')
REAL = ["debian.debian_support.update_file / download_file / download_gunzip_lines / "
        "replace_file / PackageFile / patches_from_ed_script / patch_lines / read_lines_sha*",
        "urllib.request (urlopen, urlretrieve, OpenerDirector)", "gzip", "tempfile.mkstemp",
        "_sha1/_sha2", "the tmpfs directory holding the local file"]
STUB = ["transport: urllib protocol handler for scheme sim: serving an in-memory URL map "
        "(simkit.net)", "filesystem operations on the local directory: open/write/close/"
        "rename/replace wrapped by a journaling fault injector (simkit.fs)"]
ASSUMPTIONS = [
    "file content is UTF-8 text without CR characters and without a line consisting of a "
    "single '.', every line newline-terminated (ed scripts cannot carry other content)",
    "cleanup calls (unlink) never fail; faults are injected on open, write, close, rename",
    "the full file (.gz) is not hash-checked by update_file, so payload alteration of the "
    "full file is outside the property's fault list and is not injected (only undecodable "
    "/ missing / aborted full downloads are)",
    "single faults are enumerated exhaustively per sampled world (for the rare bulk worlds "
    "with more than 24 writes the write faults are placed on the first three, the last three "
    "and six evenly spread writes); pairs are sampled",
    "no fsync / power-loss durability claim is checked (the property makes none)",
]
PROBES = ["second_update_after_repository_moved_on", "recovery_update_after_fault", "stale_new_file_present", "bulk_world_over_8k", "huge_world_over_64k_multibyte", "patch_names_not_in_lexicographic_order",
          "rename_fails_after_all_writes", "first_write_fails", "last_patch_corrupted",
          "local_version_occurs_twice", "empty_to_nonempty", "nonempty_to_empty",
          "sha256_only_index", "window_excludes_local", "patch_chain_len>=3",
          "full_download_path", "up_to_date_path", "foreign_local", "absent_local",
          "rehash_altered_patch_caught_by_final_hash", "index_missing_fallback",
          "index_garbage_fallback", "partial_write_then_enospc"]

REMOTE = "sim://mirror/dists/sid/main/binary-amd64/Packages"

_STATE = {}


def _scratch():
    """Per-process scratch: <root>/<pid>/{local,tmp}."""
    pid = os.getpid()
    if _STATE.get("pid") != pid:
        base = os.environ.get("VERIF_SCRATCH")
        if not base:
            base = "/dev/shm" if os.access("/dev/shm", os.W_OK) else tempfile.gettempdir()
        root = tempfile.mkdtemp(prefix="verif-c19-%d-" % pid, dir=base)
        os.mkdir(os.path.join(root, "local"))
        os.mkdir(os.path.join(root, "tmp"))
        _STATE.update(pid=pid, root=root)
        atexit.register(shutil.rmtree, root, True)
        # multiprocessing workers leave through os._exit; make them clean up as well
        try:
            from multiprocessing import util as _mpu
            _mpu.Finalize(None, shutil.rmtree, args=(root, True), exitpriority=10)
        except Exception:   # pylint: disable=broad-except
            pass
    return _STATE["root"]


# --------------------------------------------------------------------------- world

WORDS = ["alpha", "beta", "gamma", "Package: x", "Version: 1.0-1", " continued", "ünï", "",
         "form\x0cfeed", "nel\x85x", "ls\u2028ps\u2029", "fs\x1cgs\x1d",
         "Depends: a, b", "..", ". ", "100% %s {0} \\1", "1a", "0a", "3,4c", "d", "#c", "\t tab", "日本"]


def _gen_lines(rng, n, uniq):
    out = []
    for _ in range(n):
        w = rng.choice(WORDS)
        if rng.random() < 0.7:
            uniq[0] += 1
            w = "%s %d" % (w, uniq[0])
        if w == ".":
            w = ".."
        out.append(w)
    return out


def _mutate(rng, lines, uniq):
    lines = list(lines)
    r = rng.random()
    if r < 0.06:
        return lines            # identical consecutive versions (empty patch)
    if r < 0.12:
        return []               # becomes empty
    for _ in range(rng.randint(1, 3)):
        k = rng.random()
        if k < 0.4 or not lines:
            pos = rng.randint(0, len(lines))
            lines[pos:pos] = _gen_lines(rng, rng.randint(1, 3), uniq)
        elif k < 0.7:
            a = rng.randrange(len(lines))
            b = min(len(lines), a + rng.randint(1, 3))
            del lines[a:b]
        else:
            a = rng.randrange(len(lines))
            b = min(len(lines), a + rng.randint(1, 2))
            lines[a:b] = _gen_lines(rng, rng.randint(1, 2), uniq)
    return lines[:12] if len(lines) < 40 else lines


def generate(seed, run, tier):
    rw = stream_rng(seed, ID, run, "world")
    rs = stream_rng(seed, ID, run, "swarm")
    rf = stream_rng(seed, ID, run, "fault")
    uniq = [0]
    huge = False
    n = rs.choice([0, 1, 1, 2, 2, 3, 4, 6, 12])
    versions = [_gen_lines(rw, rs.choice([0, 1, 3, 6, 10]), uniq)]
    for _ in range(n):
        v = _mutate(rw, versions[-1], uniq)
        if rw.random() < 0.08 and len(versions) >= 2:
            v = list(versions[rw.randrange(len(versions) - 1)])   # content seen before
        versions.append(v)
    families = rs.choice([["SHA1"], ["SHA256"], ["SHA1", "SHA256"], ["SHA256", "SHA1"]])
    window = n if rs.random() < 0.6 else rs.randint(0, n)
    fields = ["Current", "History", "Patches"]
    rs.shuffle(fields)
    lk = rs.random()
    if lk < 0.12:
        local = {"kind": "absent"}
    elif lk < 0.27:
        local = {"kind": "foreign", "text": "\n".join(_gen_lines(rw, rw.randint(0, 4), uniq))
                 + rw.choice(["", "\n"])}
    else:
        local = {"kind": "version", "v": rw.randint(0, n)}
    if rs.random() < (0.04 if tier == "quick" else 0.08):
        # bulk world: payloads larger than urllib's 8 KiB transfer block
        for v in versions:
            for k in range(260):
                uniq[0] += 1
                v.insert(rw.randrange(len(v) + 1), "bulk %d %032x" % (uniq[0], rw.getrandbits(128)))
        versions[:] = [list(v) for v in versions]
        if rs.random() < 0.3:
            huge = True
            # huge world: several 64 KiB blocks of mostly multi-byte text
            for v in versions:
                for k in range(1400):
                    uniq[0] += 1
                    v.insert(rw.randrange(len(v) + 1), "bulk %d %s %08x" % (
                        uniq[0], "".join(rw.choice("日本語テキスト標準üß€") for _ in range(30)),
                        rw.getrandbits(32)))
    world = {"versions": versions, "families": families, "window": window, "fields": fields,
             "extra_field": rs.random() < 0.3, "trailing_blank": rs.random() < 0.3,
             "index_ws": rs.choice([" ", " ", "  ", "\t", " \t "]),
             "index_trailing_ws": rs.random() < 0.2,
             "stale_new": rs.choice([None, None, None, "stale left-over\n"]),
             "local": local,
             # patch names are labels; the order of the index is what counts
             "naming": rs.choice(["date", "date", "counter", "reverse", "labels"]),
             "verbose": rs.random() < 0.3}
    if rs.random() < 0.5:
        # the repository moves on after the first update: one more version is published
        world["next_version"] = _mutate(rw, [l for l in versions[-1] if not l.startswith("bulk ")]
                                        if len(versions[-1]) > 40 else versions[-1], uniq)
    npairs = 0 if tier == "quick" else 12
    pairs = [[rf.random(), rf.random()] for _ in range(npairs)]
    case = {"world": world, "enumerate": True, "pairs": pairs}
    if huge or n >= 12:
        # the two costly kinds of world: an even spread over the single faults instead of all
        case["max_singles"] = 12 if huge else 40
    return case


def describe(case):
    w = case["world"]
    if case.get("enumerate"):
        mode = ("fault-free + every applicable single fault + %d sampled fault pairs"
                % len(case.get("pairs", [])))
    else:
        mode = {"faults": case.get("faults")}
    return {"versions": w["versions"], "families": w["families"], "window": w["window"],
            "local": w["local"], "index_field_order": w["fields"], "mode": mode}


# --------------------------------------------------------------------------- repository

def _text(lines):
    return "".join(l + "\n" for l in lines)


def ed_script(old, new):
    """Independent ed-style diff (what `diff -e` prints): hunks bottom-up."""
    sm = difflib.SequenceMatcher(None, old, new, autojunk=False)
    out = []
    for tag, i1, i2, j1, j2 in reversed(sm.get_opcodes()):
        if tag == "equal":
            continue
        if tag == "insert":
            out.append("%da" % i1)
            out.extend(new[j1:j2])
            out.append(".")
        elif tag == "delete":
            out.append("%dd" % (i1 + 1) if i2 - i1 == 1 else "%d,%dd" % (i1 + 1, i2))
        else:
            out.append("%dc" % (i1 + 1) if i2 - i1 == 1 else "%d,%dc" % (i1 + 1, i2))
            out.extend(new[j1:j2])
            out.append(".")
    return out


def _h(fam, data):
    return (hashlib.sha1 if fam == "SHA1" else hashlib.sha256)(data).hexdigest()


def _gz(data):
    return gzip.compress(data, mtime=0)


def _patch_names(naming, n):
    if naming == "counter":
        return ["Packages.%d" % (i + 1) for i in range(n)]       # .10 sorts before .2
    if naming == "reverse":
        return ["2024-01-%02d-0000.%02d" % (40 - i, i) for i in range(n)]
    if naming == "labels":
        return ["%s-%d" % (["zulu", "alpha", "mike", "Bravo", "yankee", "1st", "echo"][i % 7], i)
                for i in range(n)]
    return ["2024-01-%02d-0000.%02d" % (i + 1, i) for i in range(n)]


def build_repo(world, faults):
    """-> (files: url->bytes, fetch_faults, info) with payload/index faults applied."""
    vs = world["versions"]
    n = len(vs) - 1
    patches = [_text(ed_script(vs[i], vs[i + 1])).encode() for i in range(n)]
    names = _patch_names(world.get("naming", "date"), n)
    patch_hash_src = list(patches)     # what the index says about each patch
    served = list(patches)             # what is actually served
    fetch_faults = {}
    full = _gz(_text(vs[-1]).encode())
    index_ops = []
    fired_if_fetched = {}               # url -> fault dict (payload faults)
    for f in faults:
        site = f.get("site")
        if site == "patch":
            j = f["j"]
            if j >= n:
                continue
            url = REMOTE + ".diff/" + names[j] + ".gz"
            k = f["kind"]
            if k == "missing":
                fetch_faults[url] = ("missing",)
            elif k == "abort":
                fetch_faults[url] = ("abort", f.get("pos", 0))
            elif k in ("gz_truncate", "gz_bitflip"):
                fired_if_fetched[url] = f
            else:
                lines = served[j].decode().splitlines()
                pos = f.get("pos", 0)
                if k in ("drop_line", "rehash_drop_line"):
                    if not lines:
                        continue
                    del lines[pos % len(lines)]
                elif k in ("dup_line", "rehash_dup_line"):
                    if not lines:
                        continue
                    p = pos % len(lines)
                    lines[p:p] = [lines[p]]
                elif k in ("change_line", "rehash_change_line"):
                    if not lines:
                        lines = ["0a", "injected", "."]
                    else:
                        p = pos % len(lines)
                        lines[p] = lines[p] + "x"
                new = _text(lines).encode()
                if new == served[j]:
                    continue
                served[j] = new
                if k.startswith("rehash_"):
                    patch_hash_src[j] = new
                fired_if_fetched[url] = f
        elif site == "full":
            url = REMOTE + ".gz"
            k = f["kind"]
            if k == "missing":
                fetch_faults[url] = ("missing",)
            elif k == "abort":
                fetch_faults[url] = ("abort", f.get("pos", 0))
            else:
                fired_if_fetched[url] = f
        elif site == "index":
            index_ops.append(f)
    # two payload faults on one patch may cancel each other: then nothing was altered
    for j in range(n):
        url = REMOTE + ".diff/" + names[j] + ".gz"
        f = fired_if_fetched.get(url)
        if f is not None and f["kind"] not in ("gz_truncate", "gz_bitflip") and \
                served[j] == patches[j]:
            del fired_if_fetched[url]
            patch_hash_src[j] = patches[j]
    # index text
    lo = n - world["window"]
    blocks = {}
    for fam in world["families"]:
        cur = _text(vs[-1]).encode()
        ws = world.get("index_ws", " ")
        tw = " " if world.get("index_trailing_ws") else ""
        blocks[fam + "-Current"] = " %s%s%d%s" % (_h(fam, cur), ws, len(cur), tw)
        hist = []
        pats = []
        for i in range(lo, n):
            data = _text(vs[i]).encode()
            hist.append(" %s%s%d%s%s%s" % (_h(fam, data), ws, len(data), ws, names[i], tw))
            pats.append(" %s%s%d%s%s%s" % (_h(fam, patch_hash_src[i]), ws,
                                          len(patch_hash_src[i]), ws, names[i], tw))
        blocks[fam + "-History"] = "\n" + "\n".join(hist) if hist else ""
        blocks[fam + "-Patches"] = "\n" + "\n".join(pats) if pats else ""
    for f in index_ops:
        k = f["kind"]
        fam0 = "SHA256" if "SHA256" in world["families"] else "SHA1"
        if k == "no_current":
            for fam in world["families"]:
                blocks.pop(fam + "-Current", None)
        elif k == "arity":
            for fam in world["families"]:
                if fam + "-Current" in blocks:
                    blocks[fam + "-Current"] = blocks[fam + "-Current"] + " extra"
        elif k == "arity_short":
            for fam in world["families"]:
                if fam + "-Current" in blocks:
                    blocks[fam + "-Current"] = " " + blocks[fam + "-Current"].split()[0]
        elif k == "current_wrong":
            for fam in world["families"]:
                if fam + "-Current" not in blocks:
                    continue
                t = blocks[fam + "-Current"].split()
                t[0] = _h(fam, b"something else entirely\n")
                blocks[fam + "-Current"] = " " + " ".join(t)
        elif k == "drop_patch_entry":
            v = blocks[fam0 + "-Patches"].split("\n")
            if len(v) > 1:
                del v[1 + f.get("pos", 0) % (len(v) - 1)]
                blocks[fam0 + "-Patches"] = "\n".join(v)
        elif k == "drop_history_entry":
            v = blocks[fam0 + "-History"].split("\n")
            if len(v) > 1:
                del v[1 + f.get("pos", 0) % (len(v) - 1)]
                blocks[fam0 + "-History"] = "\n".join(v)
        elif k == "history_shift":
            # every history hash now points at the *next* patch (wrong chain)
            v = blocks[fam0 + "-History"].split("\n")
            if len(v) > 2:
                toks = [x.split() for x in v[1:]]
                nm = [t[2] for t in toks]
                nm = nm[1:] + nm[:1]
                blocks[fam0 + "-History"] = "\n" + "\n".join(
                    " %s %s %s" % (t[0], t[1], m) for t, m in zip(toks, nm))
    order = []
    for fam in world["families"]:
        for fld in world["fields"]:
            if fam + "-" + fld in blocks:
                order.append(fam + "-" + fld)
    text = ""
    for key in order:
        text += "%s:%s\n" % (key, blocks[key])
    if world["extra_field"]:
        text += "X-Unrelated: some value\n"
    if world["trailing_blank"]:
        text += "\n"
    index = text.encode()
    index_url = REMOTE + ".diff/Index"
    for f in index_ops:
        k = f["kind"]
        if k == "missing":
            fetch_faults[index_url] = ("missing",)
        elif k == "abort":
            fetch_faults[index_url] = ("abort", f.get("pos", 0))
        elif k == "garbage":
            index = b"this is not an index\nno colon here either\n"
        elif k == "garbage_head":
            index = b" leading continuation\n" + index
        elif k == "truncate":
            index = index[:f.get("pos", 0) % max(len(index), 1)]
    files = {index_url: index, REMOTE + ".gz": full}
    for j in range(n):
        files[REMOTE + ".diff/" + names[j] + ".gz"] = _gz(served[j])
    effective = {}
    for url, f in fired_if_fetched.items():
        if f["kind"] not in ("gz_truncate", "gz_bitflip"):
            continue
        good = files[url]
        if f["kind"] == "gz_truncate":
            d = files[url]
            files[url] = d[:max(1, f.get("pos", 0) % len(d))]
        elif f["kind"] == "gz_bitflip":
            d = bytearray(files[url])
            p = f.get("pos", 0) % len(d)
            d[p] ^= 1 << (f.get("bit", 0) % 8)
            files[url] = bytes(d)
        # does the damage change what a reader gets?  (a flipped bit in e.g. the gzip
        # header's mtime or OS byte is invisible)
        try:
            effective[url] = gzip.decompress(files[url]) != gzip.decompress(good)
        except Exception:   # pylint: disable=broad-except
            effective[url] = True
    info = {"names": names, "lo": lo, "payload_faults": fired_if_fetched,
            "index_ops": index_ops, "effective": effective}
    return files, fetch_faults, info


# --------------------------------------------------------------------------- one execution

MUST_RAISE_PATCH = ("drop_line", "dup_line", "change_line",
                    # the patch as downloaded cannot be the one whose hash the index records
                    "gz_truncate-effective", "gz_bitflip-effective")
MUST_CONVERGE_INDEX = ("missing", "garbage", "garbage_head")


def _read(path):
    try:
        fd = os.open(path, os.O_RDONLY)
    except FileNotFoundError:
        return None
    try:
        chunks = []
        while True:
            b = os.read(fd, 65536)
            if not b:
                break
            chunks.append(b)
        return b"".join(chunks)
    finally:
        os.close(fd)


def _clean(d):
    for name in os.listdir(d):
        p = os.path.join(d, name)
        if os.path.isdir(p):
            shutil.rmtree(p, True)
        else:
            os.unlink(p)


def _leftovers(ldir, local_path, world):
    left = sorted(x for x in os.listdir(ldir) if x != "Packages")
    if (world.get("stale_new") and "Packages.new" in left
            and _read(local_path + ".new") == world["stale_new"].encode()):
        # the pre-existing left-over of an earlier crash, untouched by this update (which
        # never reached its write path), is not a temporary file of this update
        left.remove("Packages.new")
    return left


def run_one(world, faults, log=None, out=None, transport="sim", judge=True):
    """Execute update_file once.  Returns a result dict; raises Violation.

    transport="file" (fidelity self-test only) materialises the repository in a real
    directory and fetches it through urllib's own file:// handler instead of the stub."""
    import debian.debian_support as ds
    net = simnet.install()
    root = _scratch()
    ldir = os.path.join(root, "local")
    tdir = os.path.join(root, "tmp")
    _clean(ldir)
    _clean(tdir)
    tempfile.tempdir = tdir
    vs = world["versions"]
    current = _text(vs[-1]).encode()
    local_path = os.path.join(ldir, "Packages")
    lk = world["local"]
    if lk["kind"] == "absent":
        before = None
    elif lk["kind"] == "foreign":
        before = lk["text"].encode()
    else:
        before = _text(vs[lk["v"] % len(vs)]).encode()
    if before is not None:
        fd = os.open(local_path, os.O_WRONLY | os.O_CREAT | os.O_TRUNC, 0o644)
        os.write(fd, before)
        os.close(fd)
    if world.get("stale_new") is not None:
        # a left-over from an earlier, crashed update
        fd = os.open(local_path + ".new", os.O_WRONLY | os.O_CREAT | os.O_TRUNC, 0o644)
        os.write(fd, world["stale_new"].encode())
        os.close(fd)
    files, fetch_faults, info = build_repo(world, faults)
    net.reset(files, fetch_faults)
    remote = REMOTE
    if transport == "file":
        rdir = os.path.join(root, "remote")
        shutil.rmtree(rdir, True)
        for url, data in files.items():
            if fetch_faults.get(url, ("",))[0] == "missing":
                continue
            path = os.path.join(rdir, url[len("sim://"):])
            os.makedirs(os.path.dirname(path), exist_ok=True)
            fd = os.open(path, os.O_WRONLY | os.O_CREAT | os.O_TRUNC, 0o644)
            os.write(fd, data)
            os.close(fd)
        remote = "file://" + os.path.join(rdir, REMOTE[len("sim://"):])
    plan = FaultPlan([dict(f) for f in faults if f.get("site") == "fs"])
    crash = {}

    def on_boundary(op, rel):
        now = _read(local_path)
        st = ("absent" if now is None else "old" if now == before else
              "new" if now == current else "other")
        key = "%s:%s:%s" % (op, st, "new-file" if os.path.exists(local_path + ".new") else "-")
        crash[key] = crash.get(key, 0) + 1

    fs = SimFS(ldir, plan, on_boundary)
    sink = io.StringIO()
    exc = None
    ret = None
    try:
        with fs, contextlib.redirect_stdout(sink):
            try:
                ret = ds.update_file(remote, local_path, verbose=world.get("verbose", False))
            except Exception as e:   # pylint: disable=broad-except
                exc = e
    finally:
        tempfile.tempdir = None
    after = _read(local_path)
    leftovers = _leftovers(ldir, local_path, world)
    tmp_left = sorted(os.listdir(tdir))
    fetched = [(u[len(REMOTE):], o) for (u, o) in net.log]
    fired = []
    for s in plan.fired:
        fired.append(("fs", s["kind"], s.get("mode", "") + ("-persistent" if s.get("persistent")
                                                           else "")))
    for (u, k) in net.fired:
        site = "index" if u.endswith("Index") else "full" if u == REMOTE + ".gz" else "patch"
        fired.append((site, k, ""))
    for u, f in info["payload_faults"].items():
        if any(x[0] == u for x in net.log):
            fired.append((f["site"], f["kind"] + ("-effective" if info["effective"].get(u)
                                                  else ""), ""))
    index_fetched = any(u.endswith("Index") for (u, _) in net.log)
    for f in info["index_ops"]:
        if f["kind"] not in ("missing", "abort") and index_fetched:
            fired.append(("index", f["kind"], ""))
    res = {"exc": type(exc).__name__ if exc is not None else None,
           "exc_msg": str(exc)[:200] if exc is not None else None,
           "ret_ok": None if exc is not None else (ret == [l + "\n" for l in vs[-1]]),
           "after": "absent" if after is None else "current" if after == current else
                    "before" if after == before else "other",
           "leftovers": leftovers, "tmp_left": tmp_left, "fetched": fetched, "fired": fired,
           "journal": [list(j) for j in fs.journal], "crash": crash,
           "writes": fs.counts.get("write", 0), "names": info["names"], "lo": info["lo"]}
    if log is not None:
        log.add("exec", faults, res["exc"], res["ret_ok"], res["after"], leftovers, tmp_left,
                fetched, fired, res["journal"])
    if judge:
        _judge(world, faults, res, before, after, current, exc)
        if exc is not None and faults:
            # bounded liveness: once faults stop, ONE further update converges
            net.reset(build_repo(world, [])[0], {})
            sink2 = io.StringIO()
            tempfile.tempdir = tdir
            exc2 = None
            ret2 = None
            try:
                with SimFS(ldir, FaultPlan([])), contextlib.redirect_stdout(sink2):
                    try:
                        ret2 = ds.update_file(REMOTE, local_path)
                    except Exception as e:   # pylint: disable=broad-except
                        exc2 = e
            finally:
                tempfile.tempdir = None
            after2 = _read(local_path)
            left2 = _leftovers(ldir, local_path, world)
            if exc2 is not None or after2 != current or left2 or os.listdir(tdir) or \
                    ret2 != [l + "\n" for l in vs[-1]]:
                _fail("no-convergence-after-faults-stopped", faults, res,
                      second_update_exception=repr(exc2), local_is_current=after2 == current,
                      leftovers_after_second=left2)
            res["recovered"] = True
        if exc is None and not faults and world.get("next_version") is not None:
            # second epoch: the repository publishes one more version; the same client (same
            # process, same local file) updates again and must converge to it - by patches,
            # since its local copy is now the previous current version
            w2 = dict(world)
            w2["versions"] = list(vs) + [list(world["next_version"])]
            w2["window"] = min(world["window"] + 1, len(vs))
            w2.pop("next_version")
            files2, _, info2 = build_repo(w2, [])
            net.reset(files2, {})
            tempfile.tempdir = tdir
            exc2 = ret2 = None
            try:
                with SimFS(ldir, FaultPlan([])), contextlib.redirect_stdout(io.StringIO()):
                    try:
                        ret2 = ds.update_file(REMOTE, local_path)
                    except Exception as e:   # pylint: disable=broad-except
                        exc2 = e
            finally:
                tempfile.tempdir = None
            cur2 = _text(w2["versions"][-1]).encode()
            after2 = _read(local_path)
            got2 = [u[len(REMOTE):] for (u, o) in net.log]
            want_patch = ".diff/" + info2["names"][-1] + ".gz"
            ok_fetch = True
            if cur2 != current and w2["window"] >= 1:
                ok_fetch = want_patch in got2 and ".gz" not in got2
            if exc2 is not None or after2 != cur2 or ret2 != [l + "\n" for l in w2["versions"][-1]] \
                    or _leftovers(ldir, local_path, world) or os.listdir(tdir) or not ok_fetch:
                _fail("second-update-after-repository-moved-on-did-not-converge", faults, res,
                      second_update_exception=repr(exc2), local_is_new_current=after2 == cur2,
                      fetched_second=got2)
            res["evolved"] = True
    return res


def _fail(clause, faults, res, **more):
    d = {"faults": faults, "exception": res["exc"], "exception_msg": res["exc_msg"],
         "local_after": res["after"], "leftovers": res["leftovers"],
         "tmp_left": res["tmp_left"], "fetched": res["fetched"], "fired": res["fired"]}
    d.update(more)
    op = "+".join("%s.%s" % (f.get("site"), f.get("kind")) for f in faults) or "fault-free"
    raise Violation(clause, op, d)


def _judge(world, faults, res, before, after, current, exc):
    fired = res["fired"]
    # ---- always
    if res["leftovers"]:
        _fail("leftover-file-next-to-local", faults, res)
    if res["tmp_left"]:
        _fail("temporary-file-left-behind", faults, res)
    if exc is None:
        if after != current:
            _fail("normal-return-but-local-differs-from-published", faults, res)
        if not res["ret_ok"]:
            _fail("returned-lines-differ-from-published", faults, res)
    else:
        if after != before:
            _fail("error-raised-but-local-file-changed", faults, res,
                  local_is="absent" if after is None else after.decode("utf-8", "replace")[:200])
    # ---- must raise
    must_raise = [f for f in fired if (f[0] == "fs" and f[1] in
                                       ("open_write", "write", "flush_close", "rename"))
                  or (f[0] == "patch" and f[1] in MUST_RAISE_PATCH)]
    if must_raise and exc is None:
        _fail("fault-fired-but-no-error-raised", faults, res, must_raise=must_raise)
    # ---- must converge
    soft = [f for f in fired if not (f[0] == "index" and f[1] in MUST_CONVERGE_INDEX)]
    if not soft and exc is not None:
        _fail("no-disabling-fault-but-update-failed", faults, res)
    # ---- patches rather than full download (fault-free only)
    if not fired and exc is None:
        vs = world["versions"]
        n = len(vs) - 1
        names, lo = res["names"], res["lo"]
        got = [u for (u, o) in res["fetched"]]
        full = ".gz" in got
        pf = [u[len(".diff/"):-3] for u in got if u.startswith(".diff/") and
              not u.endswith("Index")]
        if before == current:
            if full or pf:
                _fail("up-to-date-local-but-something-was-downloaded", faults, res)
        else:
            lines_before = None
            lk = world["local"]
            if lk["kind"] == "version":
                lines_before = vs[lk["v"] % len(vs)]
            starts = [i for i in range(lo, n) if lines_before is not None
                      and vs[i] == lines_before]
            if before is not None and lk["kind"] == "foreign":
                # a foreign text may coincide with a published version
                starts = [i for i in range(lo, n) if _text(vs[i]).encode() == before]
            if starts:
                if full:
                    _fail("local-in-history-but-full-file-downloaded", faults, res)
                if not any(pf == names[s:] for s in starts):
                    _fail("patch-chain-not-a-suffix-from-local-version", faults, res,
                          expected_one_of=[names[s:] for s in starts], got=pf)
            else:
                if not full:
                    _fail("local-unknown-but-no-full-download", faults, res)


# --------------------------------------------------------------------------- enumeration

def enumerate_faults(world, base):
    """All single faults applicable to this world, given its fault-free result."""
    fl = []
    n = len(world["versions"]) - 1
    for k in ("missing", "abort", "garbage", "garbage_head", "truncate", "no_current", "arity",
              "arity_short", "current_wrong", "drop_patch_entry", "drop_history_entry",
              "history_shift"):
        f = {"site": "index", "kind": k}
        if k == "abort":
            f["pos"] = 7
        if k == "truncate":
            f["pos"] = 61
        fl.append(f)
    fetched_patches = [u[len(".diff/"):-3] for (u, o) in base["fetched"]
                       if u.startswith(".diff/") and not u.endswith("Index")]
    for j in range(n):
        if base["names"][j] not in fetched_patches:
            continue
        for k in ("missing", "abort", "gz_truncate", "gz_bitflip", "drop_line", "dup_line",
                  "change_line", "rehash_drop_line", "rehash_dup_line", "rehash_change_line"):
            f = {"site": "patch", "j": j, "kind": k, "pos": 3 + j}
            if k == "gz_bitflip":
                f["pos"] = 12 + j
                f["bit"] = j
            fl.append(f)
    for k in ("missing", "abort", "gz_truncate", "gz_bitflip"):
        fl.append({"site": "full", "kind": k, "pos": 11, "bit": 3})
    fl.append({"site": "fs", "kind": "open_read", "at": 0})
    fl.append({"site": "fs", "kind": "open_write", "at": 0})
    nw = base["writes"]
    if nw <= 24:
        widx = list(range(nw))
    else:
        # bulk worlds: first / last writes and an even spread (every write is the same code)
        widx = sorted(set([0, 1, 2, nw - 3, nw - 2, nw - 1] + [nw * k // 7 for k in range(1, 7)]))
    for i in widx:
        for mode in ("enospc", "enospc_partial", "eio"):
            fl.append({"site": "fs", "kind": "write", "at": i, "mode": mode})
        # the disk stays full: every later write and the final flush at close fail too
        fl.append({"site": "fs", "kind": "write", "at": i, "mode": "enospc", "persistent": True})
    fl.append({"site": "fs", "kind": "flush_close", "at": 0})
    fl.append({"site": "fs", "kind": "rename", "at": 0, "mode": "exdev"})
    fl.append({"site": "fs", "kind": "rename", "at": 0, "mode": "eio"})
    return fl


def execute(case):
    out = Outcome()
    log = EventLog()
    world = case["world"]
    inter = []

    def one(faults):
        try:
            res = run_one(world, faults, log)
        except Violation as v:
            out.violation = v.as_dict()
            out.violation_case = {"world": world, "faults": faults}
            res = None
        out.steps += 1
        if res is not None:
            out.steps += len(res["journal"]) + len(res["fetched"])
            for f in res["fired"]:
                out.fault("%s.%s%s" % (f[0], f[1], "." + f[2] if f[2] else ""))
            for k, v in res["crash"].items():
                out.count("crashpoint " + k, v)
            key = stable_hash([_shape(world), faults, res["exc"], res["after"],
                               res["fetched"]])
            out.states.add(key)
            if res["fetched"] or res["writes"]:
                out.nontrivial_keys.add(key)
            inter.append([faults, res["exc"], res["after"]])
            _probes(out, world, faults, res)
        return res

    if not case.get("enumerate"):
        one(case.get("faults", []))
        out.executions = 1
    else:
        base = one([])
        n = 1
        if base is not None:
            singles = enumerate_faults(world, base)
            cap = case.get("max_singles")
            if cap and len(singles) > cap:
                singles = [singles[len(singles) * k // cap] for k in range(cap)]
                out.count("worlds_with_sampled_single_faults")
            for f in singles:
                if out.violation is not None:
                    break
                one([f])
                n += 1
            for (a, b) in case.get("pairs", []):
                if out.violation is not None:
                    break
                fa = singles[int(a * len(singles))]
                fb = singles[int(b * len(singles))]
                if fa is fb:
                    continue
                one([fa, fb])
                n += 1
                out.count("fault_pairs_executed")
        out.executions = n
    out.digest = log.digest()
    out.interleaving = stable_hash(inter)
    out.nontrivial = True
    return out


def _shape(world):
    vs = world["versions"]
    return [len(vs), [len(v) for v in vs], world["families"], world["window"],
            world["local"].get("kind"), world["local"].get("v")]


def _probes(out, world, faults, res):
    vs = world["versions"]
    n = len(vs) - 1
    lk = world["local"]
    fired = res["fired"]
    if not faults:
        got = [u for (u, o) in res["fetched"]]
        pf = [u for u in got if u.startswith(".diff/") and not u.endswith("Index")]
        if ".gz" in got:
            out.probe("full_download_path")
        if len(pf) >= 3:
            out.probe("patch_chain_len>=3")
        if len(got) == 1 and res["exc"] is None and lk["kind"] != "absent":
            out.probe("up_to_date_path")
        if lk["kind"] == "foreign":
            out.probe("foreign_local")
        if lk["kind"] == "absent":
            out.probe("absent_local")
        if world["families"] == ["SHA256"]:
            out.probe("sha256_only_index")
        if lk["kind"] == "version":
            v = lk["v"] % len(vs)
            if v < n - world["window"] and vs[v] != vs[-1]:
                out.probe("window_excludes_local")
            if sum(1 for i in range(n) if vs[i] == vs[v]) >= 2:
                out.probe("local_version_occurs_twice")
            if not vs[v] and vs[-1]:
                out.probe("empty_to_nonempty")
            if vs[v] and not vs[-1]:
                out.probe("nonempty_to_empty")
    if res.get("evolved"):
        out.probe("second_update_after_repository_moved_on")
    if res.get("recovered"):
        out.probe("recovery_update_after_fault")
    if world.get("stale_new") is not None and not faults:
        out.probe("stale_new_file_present")
    if not faults and len(vs[-1]) > 200:
        out.probe("bulk_world_over_8k")
    if not faults and len(vs[-1]) > 1400:
        out.probe("huge_world_over_64k_multibyte")
    if not faults and world.get("naming", "date") != "date" and len(vs) > 2:
        out.probe("patch_names_not_in_lexicographic_order")
    for f in fired:
        if f[0] == "fs" and f[1] == "rename":
            out.probe("rename_fails_after_all_writes")
        if f[0] == "fs" and f[1] == "write":
            if faults and faults[0].get("at") == 0:
                out.probe("first_write_fails")
            if f[2] == "enospc_partial":
                out.probe("partial_write_then_enospc")
        if f[0] == "patch" and faults and faults[0].get("j") == n - 1:
            out.probe("last_patch_corrupted")
        if f[0] == "patch" and f[1].startswith("rehash_") and res["exc"] == "ValueError" \
                and "patch failed" in (res["exc_msg"] or ""):
            out.probe("rehash_altered_patch_caught_by_final_hash")
        if f[0] == "index" and f[1] == "missing" and res["exc"] is None:
            out.probe("index_missing_fallback")
        if f[0] == "index" and f[1] in ("garbage", "garbage_head") and res["exc"] is None:
            out.probe("index_garbage_fallback")


def shrink_candidates(case):
    """One-step world reductions (the fault list is handled by ddmin)."""
    import copy
    w = case["world"]
    vs = w["versions"]
    # drop a version (and renumber faults/local)
    for i in range(len(vs) - 1):
        c = copy.deepcopy(case)
        del c["world"]["versions"][i]
        c["world"]["window"] = min(c["world"]["window"], len(vs) - 2)
        lk = c["world"]["local"]
        if lk.get("kind") == "version" and lk["v"] % len(vs) > i:
            lk["v"] = lk["v"] % len(vs) - 1
        for f in c.get("faults", []):
            if f.get("site") == "patch" and f["j"] > i:
                f["j"] -= 1
        yield c
    # drop a line everywhere it occurs
    seen = []
    for v in vs:
        for l in v:
            if l not in seen:
                seen.append(l)
    for l in seen:
        c = copy.deepcopy(case)
        c["world"]["versions"] = [[x for x in v if x != l] for v in vs]
        yield c
    for key, val in (("families", ["SHA1"]), ("extra_field", False), ("trailing_blank", False),
                     ("verbose", False), ("fields", ["Current", "History", "Patches"]),
                     ("window", len(vs) - 1)):
        if w.get(key) != val:
            c = copy.deepcopy(case)
            c["world"][key] = val
            yield c
    # simplify line text
    for vi, v in enumerate(vs):
        for li, l in enumerate(v):
            if len(l) > 2:
                c = copy.deepcopy(case)
                short = "l%d" % seen.index(l)
                if short == l or short in seen:
                    continue
                c["world"]["versions"] = [[short if x == l else x for x in vv] for vv in vs]
                yield c


def evidence_extra(m):
    return {"single_faults_exhaustive_per_world": "yes, except the worlds counted under "
            "'worlds_with_sampled_single_faults' (payloads over 128 KiB or 12-patch chains): "
            "an even spread of 12 resp. 40 of their single faults",
            "exhaustive": False,
            "crash_point_classification": "counters 'crashpoint <op>:<local is old|new|other|"
            "absent>:<.new present>' classify the directory at every write-path operation "
            "boundary (informational; 'other' would mean a torn local file)"}
