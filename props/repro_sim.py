"""Engine shared by C05 and C10: edit histories on a format-preserving document through
several paragraph handles, judged against the document-order model of repro_common."""
import copy
import gc

from simkit.core import EventLog, Outcome, Violation, stable_hash
from props.repro_common import (Doc, Seg, NAMES, WORDS, variants, gen_doc, norm_assigned, nl_lines,
                                assignable, mini_parse_field, parse, sut_summary)

SORTKEYS = {"len": lambda x: (len(x), x.lower()), "rev": lambda x: x.lower()[::-1],
            "orig": lambda x: str(x),          # sees the spelling kept in the document
            "lenonly": lambda x: len(x)}       # ties: sorted() is stable
ORDER_OPS = ("order_first", "order_last", "order_before", "order_after")


# --------------------------------------------------------------------------- generation

def gen_value(rng):
    r = rng.random()
    if r < 0.12:
        # values the interface must refuse
        return rng.choice(["a\n\n b", "a\nb", "a\n b\n#c", "a\n \n b", "x\n# only comment"])
    first = rng.choice(["", "", " ", "\t"]) + rng.choice(WORDS + ["", ""]) + \
        rng.choice(["", "", " ", "  "])
    ncont = rng.choice([0, 0, 0, 1, 1, 2, 3])
    if ncont == 0:
        return first + rng.choice(["", "", "", "\n"])
    lines = [first]
    for i in range(ncont):
        if rng.random() < 0.2:
            lines.append("# assigned comment")
        lines.append(rng.choice([" ", " ", "\t", "  "]) + rng.choice(WORDS) +
                     rng.choice(["", "", " "]))
    return "\n".join(lines) + rng.choice(["", "\n"])


BADKEYS = ["A:B", "#X", "A B", "", " X", "-x", "X\n", "X:", "\u00e9", "A\tB", ":", "Package:x"]


def gen_key(rng, doc, pi, p_missing=0.2):
    para = doc.paras[pi] if doc.paras else []
    if para and rng.random() > p_missing:
        name = rng.choice(para).name
    else:
        name = rng.choice(NAMES)
    return rng.choice(variants(name)) if rng.random() < 0.3 else name


def gen_idx(rng, profile, dupc=True):
    if profile == "C05":
        return None
    if not dupc:
        return rng.choice([None] * 8 + [0, 1])
    return rng.choice([None, None, None, 0, 0, 1, 1, 2, -1, 5])


def gen_fields(rng):
    names = list(NAMES)
    rng.shuffle(names)
    return [[n, rng.choice(WORDS + ["two\n lines"])] for n in names[:rng.randint(1, 3)]]


def generate_case(rng_world, rng_swarm, rng_sched, profile, tier="quick"):
    dup = profile == "C10" and rng_swarm.random() < 0.6
    doc = gen_doc(rng_world, dup=dup)
    if profile == "C05":
        w = {"set": rng_swarm.choice([3, 6]), "del": rng_swarm.choice([1, 2, 4]),
             "get": rng_swarm.choice([0, 1]), "gc": rng_swarm.choice([0, 1]),
             "drop_held": rng_swarm.choice([0, 1])}
        nsteps = rng_swarm.choice([1, 2, 4, 8, 16, 25] if tier == "quick" else
                                  [1, 2, 4, 8, 16, 25, 50])
    else:
        w = {"set": rng_swarm.choice([1, 2]), "del": rng_swarm.choice([1, 2]),
             "get": rng_swarm.choice([0, 1]),
             "order_first": rng_swarm.choice([0, 2, 4]), "order_last": rng_swarm.choice([0, 2, 4]),
             "order_before": rng_swarm.choice([0, 2, 4]),
             "order_after": rng_swarm.choice([0, 2, 4]), "sort": rng_swarm.choice([0, 1, 2]),
             "append": rng_swarm.choice([0, 1, 2]), "insert": rng_swarm.choice([0, 1, 2]),
             "gc": rng_swarm.choice([0, 1]), "drop_held": rng_swarm.choice([0, 1])}
        nsteps = rng_swarm.choice([1, 2, 4, 8, 16, 25] if tier == "quick" else
                                  [1, 2, 4, 8, 16, 25, 50])
    kinds = [k for k, v in w.items() for _ in range(v)] or ["set"]
    steps = []
    npar = len(doc.paras)
    # observing a paragraph (key listing, indexed reads) is itself a sequence of calls on the
    # object and can repair or hide lazily maintained state: how often the clients look is
    # part of the schedule.  The dump is always compared; everything is read at the end.
    observe_rate = rng_swarm.choice([1.0, 1.0, 0.5, 0.15, 0.0])
    tok_rate = rng_swarm.choice([0.0, 0.0, 0.1, 0.4])
    # steps during which nobody renders or reads the document at all (the dump is an
    # observation too): everything is checked at the next step that looks
    blind_rate = rng_swarm.choice([0.0, 0.0, 0.3, 0.7])
    # key objects handed out by the library itself (iteration of a paragraph) used as keys
    iterkey_rate = rng_swarm.choice([0.0, 0.0, 0.15, 0.5])
    # a client that repeats one call many times (a loop, a retry)
    rep_rate = rng_swarm.choice([0.0, 0.0, 0.03, 0.1])
    for _ in range(nsteps):
        k = rng_sched.choice(kinds)
        pi = rng_sched.randrange(max(npar, 1))
        st = {"op": k, "p": pi,
              "via": rng_sched.choice(["held", "held", "fresh", "view"] +
                                      ([] if dup else ["view_strict"])),
              "observe": rng_sched.random() < observe_rate}
        if profile == "C05" and k in ("set", "del", "get") and rng_sched.random() < tok_rate:
            # the third documented kind of key: the field's name token, taken now or kept
            # from an earlier step (then it belongs to an element that may be gone)
            st["tok"] = rng_sched.choice(["fresh", "held", "held"])
        if k in ("set", "del", "get") or k in ORDER_OPS:
            st["key"] = gen_key(rng_sched, doc, pi % max(len(doc.paras), 1))
            dupc = pi < len(doc.paras) and is_dup(doc.paras[pi])
            st["idx"] = gen_idx(rng_sched, profile, dupc)
        if k == "set" and rng_sched.random() < 0.04:
            # a name that is no field name: must be refused, whatever else is true
            st["key"] = rng_sched.choice(BADKEYS)
            st["idx"] = None
        if k == "set":
            st["val"] = gen_value(rng_sched)
            st["route"] = rng_sched.choice(["item", "item", "item", "simple", "raw"])
        if k in ("order_before", "order_after"):
            st["ref"] = gen_key(rng_sched, doc, pi % max(len(doc.paras), 1), 0.1)
            st["ridx"] = gen_idx(rng_sched, profile, dupc)
        if k == "sort":
            st["skey"] = rng_sched.choice([None, None, "len", "rev", "orig", "lenonly"])
        if k in ("append", "insert"):
            st["fields"] = gen_fields(rng_sched)
            st["build"] = rng_sched.choice(["setitem", "from_dict"])
            st["at"] = rng_sched.choice([0, 0, 1, 2, 9])
            npar += 1
        if k in ("set", "del", "get", "sort") or k in ORDER_OPS:
            if rng_sched.random() < blind_rate:
                st["blind"] = True
                st["observe"] = False
        if "key" in st and "tok" not in st and rng_sched.random() < iterkey_rate:
            st["keysrc"] = "iter"
        if k in ("append", "insert") and rng_sched.random() < iterkey_rate:
            st["keysrc"] = "iter"
        steps.append(st)
        if k not in ("append", "insert", "gc", "drop_held") and rng_sched.random() < rep_rate:
            for _ in range(rng_sched.choice([1, 2, 5, 20, 60, 60, 90])):
                steps.append(dict(st, rep=True))
        if rng_sched.random() < 0.06:
            # an assignment made earlier in the history is made again now (other
            # assignments, under other spellings of the name, may lie in between)
            earlier = [x for x in steps if x["op"] == "set" and not x.get("rep")]
            if earlier:
                steps.append(dict(rng_sched.choice(earlier[-6:]), retry=True))
        if k == "set" and rng_sched.random() < 0.15:
            # do, then undo: the field just assigned is deleted again
            undo = {"op": "del", "p": st["p"], "via": rng_sched.choice(["held", "fresh", "view"]),
                    "observe": st["observe"], "key": st["key"], "idx": st.get("idx")}
            if st.get("blind"):
                undo["blind"] = True
            steps.append(undo)
        if k == "set" and rng_sched.random() < 0.12:
            # the same assignment once more, on another (or the same) paragraph
            again = dict(st)
            again["p"] = rng_sched.randrange(max(npar, 1))
            again["retry"] = True
            steps.append(again)
    world = {"doc": doc.to_json(), "dup": dup}
    if len(doc.paras) == 1 and not doc.leading and not doc.trailing and \
            rng_swarm.random() < 0.35:
        world["paragraph_only"] = True
    return {"world": world, "trace": steps}


# --------------------------------------------------------------------------- model ops

class Expect(Exception):
    """The model says the operation must raise one of these exception names."""

    def __init__(self, *names):
        Exception.__init__(self, names)
        self.names = names


def occ(para, key):
    lk = key.lower()
    return [i for i, s in enumerate(para) if s.name.lower() == lk]


def resolve(para, dupclass, key, idx, what):
    """-> list of seg indices the key denotes for this kind of operation."""
    o = occ(para, key)
    if idx is not None and not dupclass:
        if idx != 0:
            raise Expect("KeyError")
        idx = None if what in ("move", "del") else 0
    if not o:
        raise Expect("KeyError")
    if idx is None:
        return o
    try:
        return [o[idx]]
    except IndexError:
        raise Expect("KeyError", "IndexError")


def is_dup(para):
    names = [s.name.lower() for s in para]
    return len(set(names)) != len(names)


# --------------------------------------------------------------------------- execution

class ParagraphOnly(object):
    """The client kept only the paragraph object of a one-paragraph document; the file
    object it came from is gone (parent links are weak references)."""

    def __init__(self, para):
        self.para = para

    def dump(self):
        return self.para.dump()

    def __iter__(self):
        return iter([self.para])

    def iter_parts(self):
        return [self.para]


class Run(object):
    def __init__(self, case, profile, out, log):
        self.case = case
        self.profile = profile
        self.out = out
        self.log = log
        self.doc = Doc.from_json(case["world"]["doc"])
        self.dupfile = bool(case["world"].get("dup"))
        self.tokens = {}
        self.unchecked = False
        text = self.doc.text()
        self.file = parse(text, dup=True)
        self.dupclass = [is_dup(p) for p in self.doc.paras]
        self.held = list(self.file)
        if len(self.held) != len(self.doc.paras):
            raise Violation("initial-parse-paragraph-count", "parse",
                            {"got": len(self.held), "want": len(self.doc.paras)})
        if self.file.dump() != text:
            raise Violation("initial-dump-differs", "parse", {"got": self.file.dump(),
                                                              "want": text})
        if case["world"].get("paragraph_only") and len(self.held) == 1 and \
                not self.doc.leading and not self.doc.trailing:
            self.file = ParagraphOnly(self.held[0])
            gc.collect()
            out.probe("file_object_dropped_paragraph_kept")

    # -- handles
    def handle(self, pi, via):
        if via == "fresh" or self.held is None:
            paras = list(self.file)
            if len(paras) != len(self.doc.paras):
                raise Violation("paragraph-count-differs", "iterate",
                                {"got": len(paras), "want": len(self.doc.paras)})
            if self.held is None:
                self.held = paras
            p = paras[pi]
        else:
            p = self.held[pi]
        if via == "view":
            return p.configured_view()
        if via == "view_strict":
            # the view that does not guess between repeated fields; this paragraph has none
            if self.dupfile or any(self.dupclass):
                return p.configured_view()
            self.out.probe("view_without_auto_resolve")
            return p.configured_view(auto_resolve_ambiguous_fields=False)
        return p

    def sut_key(self, name):
        """The first key object the library itself hands out (iterating the paragraphs in
        document order) that names this field, whatever its case."""
        for p in self.file:
            for k in p:
                if str(k).lower() == name.lower():
                    return k
        return None

    def set_call(self, h, pi, k, val, route):
        """p[k] = v, or the same assignment through the paragraph's set_field_* methods
        (only for values those methods take as they are)."""
        if route == "simple" and "\n" not in val:
            para = self.handle(pi, "held")
            self.out.probe("set_through_set_field_methods")
            return lambda: para.set_field_to_simple_value(k, val.strip())
        if route == "raw":
            # what the dict interface documents it does with the value, done by the caller
            para = self.handle(pi, "held")
            self.out.probe("set_through_set_field_methods")
            if "\n" in val:
                first, rest = val.split("\n", 1)
                raw = " " + first.strip() + "\n" + rest
                self.out.probe("multi_line_value_through_set_field_from_raw_string")
            else:
                raw = " " + val.strip()
            if not raw.endswith("\n"):
                raw += "\n"
            return lambda: para.set_field_from_raw_string(k, raw)
        return lambda: h.__setitem__(k, val)

    def resolve_pending(self, si, op):
        """Somebody looks at the document again: fields assigned in the meantime get their
        exact text from the paragraph's own parts (validated like any edited field), then the
        whole document is compared with the model."""
        if not self.unchecked:
            return
        self.unchecked = False
        from props.repro_common import norm_value
        segs_all = [s for p in self.doc.paras for s in p]
        if any(s.pending for s in segs_all):
            paras = list(self.file)
            if len(paras) != len(self.doc.paras):
                raise Violation("paragraph-count-differs", op, {"step": si, "got": len(paras),
                                                                "want": len(self.doc.paras)})
            for pi, (p, mp_) in enumerate(zip(paras, self.doc.paras)):
                kvs = list(p.iter_parts())
                where = {"step": si, "paragraph": pi, "after": "steps without any rendering"}
                if len(kvs) != len(mp_):
                    where.update(got=[str(kv.field_name) for kv in kvs],
                                 want=[s.name for s in mp_])
                    raise Violation("reparsed-document-differs-from-model", op, where)
                for kv, seg in zip(kvs, mp_):
                    if not seg.pending:
                        continue
                    x = kv.convert_to_text()
                    want_name, want_value = seg.name, seg.value
                    if not x.startswith(seg.comment):
                        where.update(field_text=x, comment=seg.comment)
                        raise Violation("bytes-outside-the-edited-field-changed", op, where)
                    body = x[len(seg.comment):]
                    got = mini_parse_field(body)
                    if got is None or (not body.endswith("\n") and seg is not segs_all[-1]):
                        where.update(new_field_text=body)
                        raise Violation("edited-field-is-not-one-field-on-its-own-lines", op,
                                        where)
                    if got[0] != want_name:
                        where.update(got_name=got[0], want_name=want_name)
                        raise Violation("field-name-spelling-changed", op, where)
                    if norm_value(got[1]) != want_value:
                        where.update(got_value=norm_value(got[1]), want_value=want_value)
                        raise Violation("edited-field-reads-back-differently", op, where)
                    seg.body = body
                    seg.pending = False
        self.check_document(si, op + " (first look after steps without any rendering)")

    # -- whole-document checks
    def check_document(self, si, op, hole=None, exact=True, tolerate_final_newline=False):
        """hole: (prefix_text, suffix_text, expect_name, expect_value, seg) or None."""
        d = self.file.dump()
        where = {"step": si}
        if hole is not None:
            prefix, suffix, want_name, want_value, seg, at_end = hole
            if not (d.startswith(prefix) and d.endswith(suffix)
                    and len(d) >= len(prefix) + len(suffix)):
                where.update(dump=d, expected_prefix=prefix, expected_suffix=suffix)
                raise Violation("bytes-outside-the-edited-field-changed", op, where)
            x = d[len(prefix):len(d) - len(suffix)]
            mp = mini_parse_field(x)
            if mp is None:
                where.update(dump=d, new_field_text=x)
                raise Violation("edited-field-is-not-one-field-on-its-own-lines", op, where)
            if not x.endswith("\n") and suffix != "":
                where.update(dump=d, new_field_text=x)
                raise Violation("edited-field-is-not-one-field-on-its-own-lines", op, where)
            from props.repro_common import norm_value
            if mp[0] != want_name:
                where.update(dump=d, got_name=mp[0], want_name=want_name)
                raise Violation("field-name-spelling-changed", op, where)
            if norm_value(mp[1]) != want_value:
                where.update(dump=d, got_value=norm_value(mp[1]), want_value=want_value)
                raise Violation("edited-field-reads-back-differently", op, where)
            seg.body = x
        else:
            want = self.doc.text()
            if d != want:
                if not want.endswith("\n") and d == want + "\n":
                    segs = [s for p in self.doc.paras for s in p]
                    if self.doc.trailing == "" and segs:
                        segs[-1].body += "\n"
                    else:
                        self.doc.trailing += "\n"
                else:
                    where.update(dump=d, want=want)
                    raise Violation("dump-differs-from-document-order-model", op, where)
        # fresh parse
        try:
            got = sut_summary(d, dup=True)
        except Exception as e:   # pylint: disable=broad-except
            where.update(dump=d, error=repr(e))
            raise Violation("dump-does-not-reparse", op, where)
        if got != self.doc.summary():
            where.update(dump=d, reparsed=got, model=self.doc.summary())
            raise Violation("reparsed-document-differs-from-model", op, where)

    def check_reads(self, si, op):
        paras = list(self.file)
        if len(paras) != len(self.doc.paras):
            raise Violation("paragraph-count-differs", op, {"step": si, "got": len(paras),
                                                            "want": len(self.doc.paras)})
        for pi, (p, m) in enumerate(zip(paras, self.doc.paras)):
            where = {"step": si, "paragraph": pi}
            keys = [str(k) for k in p.keys()]
            if keys != [s.name for s in m]:
                where.update(got=keys, want=[s.name for s in m])
                raise Violation("key-order-differs-from-document-order", op, where)
            seen = {}
            for s in m:
                lk = s.name.lower()
                i = seen.get(lk, 0)
                seen[lk] = i + 1
                try:
                    if self.dupclass[pi]:
                        got = p[(s.name, i)]
                    else:
                        got = p[s.name.swapcase()]
                except Exception as e:   # pylint: disable=broad-except
                    where.update(key=s.name, index=i, error=repr(e))
                    raise Violation("indexed-read-raised", op, where)
                if got != s.value:
                    where.update(key=s.name, index=i, got=got, want=s.value)
                    raise Violation("name-i-is-not-the-i-th-occurrence-in-document-order"
                                    if self.dupclass[pi] else "read-differs-from-model", op, where)
                if i == 0:
                    try:
                        first = p[s.name]
                    except Exception as e:   # pylint: disable=broad-except
                        where.update(key=s.name, error=repr(e))
                        raise Violation("plain-read-raised", op, where)
                    if first != s.value:
                        where.update(key=s.name, got=first, want=s.value)
                        raise Violation("plain-read-is-not-first-occurrence", op, where)

    # -- one step
    def step(self, si, st):
        out = self.out
        op = st["op"]
        if op == "gc":
            gc.collect()
            out.probe("gc_step")
            return True
        if op == "drop_held":
            self.held = None
            out.probe("handles_dropped_and_refetched")
            return True
        if op in ("append", "insert"):
            if isinstance(self.file, ParagraphOnly):
                return False
            return self.file_op(si, st)
        if not self.doc.paras:
            return False
        pi = st["p"] % len(self.doc.paras)
        para = self.doc.paras[pi]
        dupc = self.dupclass[pi]
        h = self.handle(pi, st.get("via", "held"))
        key, idx = st.get("key"), st.get("idx")
        k = key if idx is None else (key, idx)
        if st.get("keysrc") == "iter":
            obj = self.sut_key(key)
            if obj is not None:
                out.probe("key_object_taken_from_iteration")
                key = str(obj)
                k = obj if idx is None else (obj, idx)
        if st.get("rep"):
            out.probe("same_call_repeated")
        if st.get("tok") and idx is None and not dupc and not self.dupfile:
            elem = self.handle(pi, "held").get_kvpair_element(key, use_get=True)
            tok = elem.field_token if elem is not None else None
            if st["tok"] == "held":
                tok = self.tokens.setdefault((pi, key.lower()), tok)
                if tok is None:
                    del self.tokens[(pi, key.lower())]
            if tok is not None:
                if elem is None or tok is not elem.field_token:
                    out.probe("name_token_of_a_replaced_or_deleted_field_as_key")
                else:
                    out.probe("name_token_as_key")
                k = tok
                key = str(tok.text)
        blind = bool(st.get("blind"))
        if not blind:
            self.resolve_pending(si, op)
        before = self.doc.copy()
        if blind:
            out.probe("step_without_any_rendering")
            before_dump = None
            last_unterminated = False
        else:
            before_dump = self.file.dump()
            last_unterminated = not before_dump.endswith("\n") and before_dump != ""
        hole = None
        expect = None
        res = None
        try:
            if op == "get":
                sel = resolve(para, dupc, key, idx, "get")
                call = lambda: h[k]
                res = para[sel[0]].value
            elif op == "set":
                val = st["val"]
                if key in BADKEYS:
                    out.probe("assignment_under_an_invalid_field_name")
                    raise Expect("*")
                o = occ(para, key)
                reasons = []
                if assignable(val) is False:
                    reasons.append("ValueError")
                if idx is not None and ((not dupc and idx != 0) or (dupc and not o and idx != 0)):
                    reasons.append("KeyError")
                if idx is not None and dupc and o and not -len(o) <= idx < len(o):
                    reasons.extend(["KeyError", "IndexError"])
                if reasons:
                    raise Expect(*reasons)
                if o:
                    if idx is None or not dupc:
                        target = o[0]
                        if idx is None and len(o) > 1:
                            for j in reversed(o[1:]):
                                del para[j]
                            out.probe("unindexed_set_replaces_all_occurrences")
                    else:
                        try:
                            target = o[idx]
                        except IndexError:
                            raise Expect("KeyError", "IndexError")
                    seg = para[target]
                    if seg.comment:
                        out.probe("replace_field_that_has_comments")
                    if key != seg.name:
                        out.probe("key_given_in_other_case")
                    want_name = seg.name
                else:
                    seg = Seg("", "")
                    para.append(seg)
                    target = len(para) - 1
                    want_name = key
                    if last_unterminated and pi == len(self.doc.paras) - 1:
                        out.probe("add_to_unterminated_document")
                # text before / after the hole
                segs_before = [s for p in self.doc.paras[:pi] for s in p] + para[:target]
                for s in segs_before:
                    if not s.body.endswith("\n"):
                        s.body += "\n"
                pre, post = [self.doc.leading], []
                cur = pre
                for i, p in enumerate(self.doc.paras):
                    for j, s in enumerate(p):
                        if i == pi and j == target:
                            pre.append(s.comment)
                            cur = post
                        else:
                            cur.append(s.text)
                    cur.append(self.doc.seps[i] if i < len(self.doc.paras) - 1 else "")
                cur.append(self.doc.trailing)
                prefix, suffix = "".join(pre), "".join(post)
                hole = (prefix, suffix, want_name, norm_assigned(val), seg, suffix == "")
                call = self.set_call(h, pi, k, val, st.get("route", "item"))
            elif op == "del":
                sel = resolve(para, dupc, key, idx, "del")
                if before_dump is not None and not before_dump.endswith("\n") and \
                        pi == len(self.doc.paras) - 1 and sel[-1] == len(para) - 1:
                    out.probe("delete_last_field_of_unterminated_document")
                for j in reversed(sel):
                    del para[j]
                call = lambda: h.__delitem__(k)
            elif op in ("order_first", "order_last"):
                sel = resolve(para, dupc, key, idx, "move")
                moved = [para[j] for j in sel]
                if len(sel) > 1:
                    out.probe("move_all_occurrences_of_duplicated_name")
                rest = [s for j, s in enumerate(para) if j not in sel]
                para[:] = moved + rest if op == "order_first" else rest + moved
                call = lambda: getattr(h, op)(k)
            elif op in ("order_before", "order_after"):
                ref, ridx = st["ref"], st.get("ridx")
                r = ref if ridx is None else (ref, ridx)
                both = []
                try:
                    sel = resolve(para, dupc, key, idx, "move")
                except Expect as e:
                    both.extend(e.names)
                    sel = None
                try:
                    rsel = resolve(para, dupc, ref, ridx, "move")
                except Expect as e:
                    both.extend(e.names)
                    rsel = None
                if both:
                    if key.lower() == ref.lower():
                        both.append("ValueError")
                    raise Expect(*both)
                rj = rsel[0] if op == "order_before" else rsel[-1]
                if rj in sel:
                    raise Expect("ValueError")
                if len(sel) > 1:
                    out.probe("move_all_occurrences_of_duplicated_name")
                if idx is not None and len(occ(para, key)) > 1:
                    out.probe("single_occurrence_moved_past_sibling")
                moved = [para[j] for j in sel]
                refseg = para[rj]
                rest = [s for j, s in enumerate(para) if j not in sel]
                at = rest.index(refseg)
                if op == "order_after":
                    at += 1
                para[:] = rest[:at] + moved + rest[at:]
                call = lambda: getattr(h, op)(k, r)
            elif op == "sort":
                skey = st.get("skey")
                f = SORTKEYS.get(skey, lambda x: x.lower())
                para.sort(key=lambda s: f(s.name))
                if is_dup(para):
                    out.probe("sort_with_duplicates")
                call = (lambda: h.sort_fields()) if skey is None else \
                    (lambda: h.sort_fields(key=lambda name_: f(name_)))
                if not hasattr(h, "sort_fields"):
                    h = self.handle(pi, "held")
                    call = (lambda: h.sort_fields()) if skey is None else \
                        (lambda: h.sort_fields(key=lambda name_: f(name_)))
            else:
                return False
            if op in ORDER_OPS and not hasattr(h, op):
                h = self.handle(pi, "held")
        except Expect as e:
            expect = e.names
            self.doc = before
            # the SUT call still has to be made (and must fail)
            r = None
            if op in ("order_before", "order_after"):
                ref, ridx = st["ref"], st.get("ridx")
                r = ref if ridx is None else (ref, ridx)
            if op in ORDER_OPS and not hasattr(h, op):
                h = self.handle(pi, "held")
            call = {"get": lambda: h[k],
                    "set": self.set_call(h, pi, k, st.get("val"), st.get("route", "item")),
                    "del": lambda: h.__delitem__(k),
                    "order_first": lambda: h.order_first(k),
                    "order_last": lambda: h.order_last(k),
                    "order_before": lambda: h.order_before(k, r),
                    "order_after": lambda: h.order_after(k, r)}[op]
        if expect is None and op not in ("get",):
            self.doc.terminate_all_but_last()
            if last_unterminated and self.doc.text().count("\n") and op in ORDER_OPS + ("sort",):
                out.probe("reorder_in_unterminated_document")
        try:
            got = call()
            exc = None
        except Exception as e:   # pylint: disable=broad-except
            got = None
            exc = type(e).__name__
            if exc == "AmbiguousDeb822FieldKeyError":
                exc = "KeyError"
        self.log.add(si, pi, st.get("via"), op, key, idx, st.get("ref"), st.get("ridx"),
                     st.get("val"), st.get("skey"), exc)
        where = {"step": si, "paragraph": pi, "op": op, "key": k, "ref": st.get("ref"),
                 "ridx": st.get("ridx"), "value": st.get("val")}
        if expect is not None:
            out.count("failing_ops")
            if exc is None or (exc not in expect and "*" not in expect):
                where.update(got_exception=exc, want_exception=list(expect),
                             dump_after=self.file.dump())
                raise Violation("failing-operation-did-not-fail-as-specified", op, where)
            if blind:
                self.unchecked = True
                return True       # the model is unchanged; compared at the next look
            if self.file.dump() != before_dump:
                where.update(before=before_dump, after=self.file.dump())
                raise Violation("failed-operation-changed-the-document", op, where)
            out.probe("failing_op_leaves_document_unchanged")
            return True
        if exc is not None:
            where.update(exception=exc, dump_after=self.file.dump())
            raise Violation("operation-raised-unexpectedly", op, where)
        if op == "get":
            if got != res:
                where.update(got=got, want=res)
                raise Violation("read-differs-from-model", op, where)
            return True
        if blind:
            if hole is not None:
                _, _, want_name, want_value, seg, _ = hole
                seg.body = "%s: %s\n" % (want_name, want_value)     # provisional text
                seg.pending = True
            self.unchecked = True
            return True
        self.check_document(si, op, hole=hole)
        return True

    def file_op(self, si, st):
        from debian._deb822_repro.parsing import Deb822ParagraphElement
        from props.repro_common import norm_value
        out = self.out
        op = st["op"]
        self.resolve_pending(si, op)
        fields = st["fields"]
        d = {}
        for k, v in fields:
            if st.get("keysrc") == "iter":
                obj = self.sut_key(k)
                if obj is not None:
                    out.probe("key_object_taken_from_iteration")
                    d[obj] = v
                    continue
            d[k] = v
        if st.get("build") == "from_dict":
            newp = Deb822ParagraphElement.from_dict(d)
        else:
            newp = Deb822ParagraphElement.new_empty_paragraph()
            for k, v in d.items():
                newp[k] = v
        ptext = newp.dump()
        # the new paragraph's own text must be the fields that were assigned
        segs = []
        rest = ptext
        for k, v in d.items():
            # split off one field: up to the next line that starts a new field
            lines = nl_lines(rest)
            n = 1
            while n < len(lines) and lines[n][0] in " \t#":
                n += 1
            ftext, rest = "".join(lines[:n]), "".join(lines[n:])
            mp = mini_parse_field(ftext)
            if mp is None or mp[0] != str(k) or norm_value(mp[1]) != norm_assigned(v) or \
                    not ftext.endswith("\n"):
                raise Violation("new-paragraph-text-is-not-its-fields", op,
                                {"step": si, "text": ptext, "fields": fields})
            segs.append(Seg("", ftext))
        if rest:
            raise Violation("new-paragraph-text-is-not-its-fields", op,
                            {"step": si, "text": ptext, "fields": fields})
        before_dump = self.file.dump()
        npar = len(self.doc.paras)
        at = npar if op == "append" else min(st["at"], npar)
        if not before_dump.endswith("\n") and before_dump:
            out.probe("append_or_insert_into_unterminated_document")
        if npar == 0 or before_dump == "":
            out.probe("insert_into_empty_file")
        if op == "insert" and st["at"] > npar:
            out.probe("insert_beyond_end")
        try:
            if op == "append":
                self.file.append(newp)
            else:
                self.file.insert(st["at"], newp)
            exc = None
        except Exception as e:   # pylint: disable=broad-except
            exc = type(e).__name__
        self.log.add(si, op, st.get("at"), fields, exc)
        if exc is not None:
            raise Violation("operation-raised-unexpectedly", op,
                            {"step": si, "exception": exc, "fields": fields})
        old_free = self.free_comments()
        self.doc.paras.insert(at, segs)
        self.dupclass.insert(at, False)
        if self.held is not None:
            self.held.insert(at, newp)
        self.doc.terminate_all_but_last()
        # -- relaxed oracle (the side of a free comment is unspecified): walk the file's
        # element sequence; every paragraph element must be the model's paragraph, text
        # between paragraphs must be blank lines and comments, neighbours must not merge
        dump = self.file.dump()
        gaps = [""]
        ptexts = []
        for part in self.file.iter_parts():
            if isinstance(part, Deb822ParagraphElement):
                ptexts.append(part.dump())
                gaps.append("")
            else:
                gaps[-1] += part.text if hasattr(part, "text") else part.convert_to_text()
        if len(ptexts) != len(self.doc.paras):
            raise Violation("paragraph-count-differs", op, {"step": si, "got": len(ptexts),
                                                            "want": len(self.doc.paras)})
        nonempty = [i for i, p in enumerate(self.doc.paras) if p]
        for pi, (t, p) in enumerate(zip(ptexts, self.doc.paras)):
            want = "".join(s.text for s in p)
            if t != want:
                if p and pi == nonempty[-1] and t == want + "\n" and not want.endswith("\n"):
                    p[-1].body += "\n"
                else:
                    raise Violation("surviving-paragraph-text-changed", op,
                                    {"step": si, "paragraph": pi, "got": t, "want": want,
                                     "dump": dump})
        for g in gaps:
            for l in nl_lines(g):
                if l.strip() != "" and not l.startswith("#"):
                    raise Violation("foreign-text-between-paragraphs", op,
                                    {"step": si, "gap": g, "dump": dump})
        for a, b in zip(nonempty, nonempty[1:]):
            between = "".join(gaps[a + 1:b + 1])
            if not any(l.strip() == "" for l in nl_lines(between)):
                raise Violation("inserted-paragraph-merged-with-neighbour", op,
                                {"step": si, "between": between, "dump": dump})
        self.doc.leading = gaps[0]
        self.doc.seps = gaps[1:-1]
        self.doc.trailing = gaps[-1]
        if self.doc.text() != dump:
            raise Violation("dump-not-explained-by-paragraphs-and-separators", op,
                            {"step": si, "dump": dump, "model": self.doc.text()})
        if sorted(self.free_comments()) != sorted(old_free):
            raise Violation("free-comment-lost-or-duplicated", op,
                            {"step": si, "before": old_free, "after": self.free_comments(),
                             "dump": dump})
        self.check_document(si, op)
        return True

    def free_comments(self):
        out = []
        for p in self.doc.paras:
            for s in p:
                out.extend(l.rstrip("\n") for l in nl_lines(s.comment))
        for g in [self.doc.leading] + self.doc.seps + [self.doc.trailing]:
            out.extend(l.rstrip("\n") for l in nl_lines(g) if l.startswith("#"))
        return out


def execute_case(case, profile):
    out = Outcome()
    log = EventLog()
    gc_was = gc.isenabled()
    gc.disable()
    inter = []
    try:
        run = Run(case, profile, out, log)
        run.check_reads(-1, "parse")
        mutations = 0
        for si, st in enumerate(case["trace"]):
            if not run.step(si, st):
                continue
            out.steps += 1
            inter.append((st["op"], st.get("p"), st.get("via")))
            if st["op"] not in ("get", "gc", "drop_held"):
                mutations += 1
            if st.get("observe", True):
                run.resolve_pending(si, st["op"])
                run.check_reads(si, st["op"])
            else:
                out.probe("step_without_observation")
            out.states.add(stable_hash(run.doc.to_json()))
        run.resolve_pending(len(case["trace"]), "end")
        run.check_reads(len(case["trace"]), "end")
        out.nontrivial = mutations >= 2
    finally:
        if gc_was:
            gc.enable()
    out.digest = log.digest()
    out.interleaving = stable_hash(inter)
    return out


def shrink_candidates(case):
    doc = case["world"]["doc"]
    # drop a paragraph
    for i in range(len(doc["paras"])):
        if len(doc["paras"]) > 1:
            c = copy.deepcopy(case)
            d = c["world"]["doc"]
            del d["paras"][i]
            if d["seps"]:
                del d["seps"][min(i, len(d["seps"]) - 1)]
            yield c
    # drop a field
    for i, p in enumerate(doc["paras"]):
        for j in range(len(p)):
            if len(p) > 1:
                c = copy.deepcopy(case)
                del c["world"]["doc"]["paras"][i][j]
                yield c
    for key in ("leading", "trailing"):
        if doc[key]:
            c = copy.deepcopy(case)
            c["world"]["doc"][key] = ""
            yield c
    for i, s in enumerate(doc["seps"]):
        if s != "\n":
            c = copy.deepcopy(case)
            c["world"]["doc"]["seps"][i] = "\n"
            yield c
    # simplify a field: drop comment, make single line
    for i, p in enumerate(doc["paras"]):
        for j, (comment, body) in enumerate(p):
            if comment:
                c = copy.deepcopy(case)
                c["world"]["doc"]["paras"][i][j][0] = ""
                yield c
            name = body[:body.index(":")]
            simple = name + ": v\n" if body.endswith("\n") else name + ": v"
            if body != simple:
                c = copy.deepcopy(case)
                c["world"]["doc"]["paras"][i][j][1] = simple
                yield c
    for i, st in enumerate(case["trace"]):
        if st.get("via") not in (None, "held"):
            c = copy.deepcopy(case)
            c["trace"][i]["via"] = "held"
            yield c
        if st.get("val") not in (None, "v"):
            c = copy.deepcopy(case)
            c["trace"][i]["val"] = "v"
            yield c
        if st.get("fields") and len(st["fields"]) > 1:
            c = copy.deepcopy(case)
            c["trace"][i]["fields"] = st["fields"][:1]
            yield c
