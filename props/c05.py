"""C05 -- edits through the format-preserving parser's dict interface are local and read back.

Simulated: 1..3 clients holding paragraph handles obtained at different times (objects from
the first iteration, fresh list(file)[i], configured_view() wrappers) issue a seeded history of
p[k] = v / del p[k] / p[k] -- including assignments that must be refused -- plus liveness
steps (drop handles, gc.collect()).  Oracle: the generator's own segment list; after every
mutation the dump must be prefix + X + suffix with untouched bytes outside the edited field,
X must be exactly one field (independent mini-parser) with the original spelling and the
assigned value, and a fresh parse must show the model's paragraphs.
"""
from simkit.core import stream_rng
from props import repro_sim

ID = "C05"
LEVEL = "exploration"
TIERS = {"quick": {"runs": 32000, "wall": 150}, "thorough": {"runs": 800000, "wall": 1500}}
HASHSEED_RUNS = {"quick": 300, "thorough": 3000}    # S7: identical event logs under other hash seeds
RULE = ("world = seeded valid document kept as segments (1..4 paragraphs x 1..6 fields, field "
        "comments, multi-line values with space/tab continuations and inline comments, odd "
        "spacing, free comments between paragraphs, with or without final newline); trace = "
        "seeded history (<= 25 steps) of set (existing key in any case / new key; single- and "
        "multi-line values; values that must be refused) / delete / read through held, fresh "
        "and view handles, plus gc and handle-drop steps; an evaluation is one run; distinct = "
        "distinct (op, paragraph, handle-kind) sequence hash; non-trivial = at least two "
        "mutations were applied"
        '; later additions: steps without any rendering (fields assigned blindly are pending in the model until the next look), the non-guessing view, set_field_* routes, name tokens (fresh or stale) and library-provided key objects as keys, one call repeated up to 90 times, do-then-undo, an earlier assignment made again, names that are no field names (must be refused), rare line-break characters in values and comments')
REAL = ["debian._deb822_repro.parsing (parse_deb822_file, paragraph elements, dict mixins, "
        "set_field_*), tokens.py, formatter.py, debian._util (LinkedList, OrderedSet)"]
STUB = []
ASSUMPTIONS = [
    "documents are valid, without duplicated fields, newline is \\n",
    "the default dict view semantics define 'the value': first line stripped, comment lines "
    "dropped, final newline hidden",
    "a deleted field takes its attached comment lines with it (they are part of the field)",
    "the only licensed change outside the edited field is a newline supplied to a formerly "
    "unterminated last line when something is placed after it",
]
PROBES = ["add_to_unterminated_document", "replace_field_that_has_comments",
          "delete_last_field_of_unterminated_document", "key_given_in_other_case",
          "failing_op_leaves_document_unchanged", "gc_step", "handles_dropped_and_refetched", "step_without_observation",
          "file_object_dropped_paragraph_kept", "set_through_set_field_methods",
          "view_without_auto_resolve", "multi_line_value_through_set_field_from_raw_string",
          "key_object_taken_from_iteration", "same_call_repeated",
          "step_without_any_rendering", "assignment_under_an_invalid_field_name",
          "name_token_as_key", "name_token_of_a_replaced_or_deleted_field_as_key"]


def generate(seed, run, tier):
    return repro_sim.generate_case(stream_rng(seed, ID, run, "world"),
                                   stream_rng(seed, ID, run, "swarm"),
                                   stream_rng(seed, ID, run, "sched"), "C05", tier)


def describe(case):
    from props.repro_common import Doc
    return {"document": Doc.from_json(case["world"]["doc"]).text(),
            "trace": case["trace"][:25], "trace_len": len(case["trace"])}


def execute(case):
    return repro_sim.execute_case(case, "C05")


shrink_candidates = repro_sim.shrink_candidates
