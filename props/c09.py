"""C09 -- Deb822 mappings stay ordered, case-insensitive and case-preserving in any history.

Simulated: 1..4 live handles (the original, copies, objects re-parsed from a dump) receiving
a seeded history of assignments, deletions, lookups, re-orderings, sorts, copies, dump/parse
cycles, handle drops and garbage collections -- including operations that must fail
(missing key -> KeyError, re-order relative to itself -> ValueError, invalid value ->
ValueError) and must then change nothing.  Oracle: an ordered list of
(lower-case name, first spelling, value) per handle.
"""
import copy
import gc
import io
import re

from simkit.core import EventLog, Outcome, Violation, stream_rng, stable_hash

ID = "C09"
LEVEL = "exploration"
TIERS = {"quick": {"runs": 32000, "wall": 150}, "thorough": {"runs": 800000, "wall": 1500}}
HASHSEED_RUNS = {"quick": 300, "thorough": 3000}    # S7: identical event logs under other hash seeds
RULE = ("start state = empty / dict-initialised / parsed-from-text / parsed-from-lines "
        "paragraph over a key alphabet of 6 names x case variants; trace = seeded history "
        "(<= 60 steps, <= 4 live handles) of set / get / del / pop / setdefault / clear / in / "
        "order_first / order_last / order_before / order_after / sort_fields (default and "
        "custom keys) / copy / dump->parse / drop-handle / gc.collect, incl. failing "
        "operations; all live handles are compared with the list model after every step; an "
        "evaluation is one run; distinct = distinct (handle, op, outcome) sequence hash; "
        "non-trivial = at least one re-ordering and one failing operation occurred"
        '; later additions: quiet observers, paragraph read as one of several from a stream, re-parse from str / bytes / file / line list, dump(fd), values beyond one I/O buffer, values with rare line-break characters, bare CR (refused), name families equal under lower() only, sort keys with ties / consulting the mapping')
REAL = ["debian.deb822.Deb822 / Deb822Dict (mapping protocol, order_*, sort_fields, copy, "
        "dump, _internal_parser)", "debian._util.OrderedSet / LinkedList / LinkedListNode / "
        "_CaseInsensitiveString", "collections.abc.MutableMapping mixins", "weakref, gc"]
STUB = []
ASSUMPTIONS = [
    "values are text that the paragraph's own validate_input accepts and that survives "
    "dump->parse unchanged (no trailing blanks, continuation lines start with one blank); "
    "value round-tripping in general is C02 (not applicable to this technique)",
    "keys consist of letters, digits and '-' (valid field names)",
    "object lifetime is part of the schedule: gc is disabled during a run and collections "
    "happen only at explicit trace steps",
]
PROBES = ["remove_head_then_insert_before_tail", "reorder_the_only_element",
          "reorder_head_tail_adjacent", "delete_then_reinsert_in_other_case",
          "copy_then_diverge", "failing_op_keyerror", "failing_op_valueerror_self_reorder",
          "failing_op_invalid_value", "gc_step", "reparsed_handle", "paragraph_read_from_a_stream_of_several", "paragraph_with_over_a_thousand_fields", "sort_custom_key",
          "clear_then_reuse", "step_without_observation", "sort_key_with_ties",
          "sort_key_consults_the_mapping", "quiet_observer"]

NAMES = [["Package", "package", "PACKAGE"], ["Version", "version", "VERSION"],
         ["Depends", "depends", "DePeNdS"], ["X-A", "x-a", "X-a"], ["Zeta", "zeta", "ZETA"],
         ["alpha", "Alpha", "ALPHA"],
         # equal under lower(), and NOT equal to the next family (casefold would merge them)
         ["Stra\u00dfe", "STRA\u00dfE", "stra\u00dfe"], ["Strasse", "STRASSE", "strasse"]]
VALUES = ["1", "foo", "1.0-1", "a, b (>= 1)", "", "x y", "multi\n line2", "\n only\n cont",
          "ünï", "v#1", "long value with several words", "100% %s {0} \\1",
          "big " + "0123456789abcdef" * 600,          # beyond one I/O buffer
          # characters str.splitlines() breaks at are ordinary characters of a value
          "form\x0cfeed", "nel\x85x", "ls\u2028x y", "multi\n li\x1cne\u2029 2",
          # continuation lines that start with white space other than blank or tab
          "multi\n\u00a0nbsp line", "m\n\u2003em\n\x1cfs"]
BADVALUES = ["ends\n", "blank\n\n line", "nospace\nline2",
             "cr\rline2", "cr\r\rx", "x\rPackage: evil"]     # a bare CR is a line break on re-parse
SORTKEYS = {"len": lambda x: (len(x), x.lower()),
            "rev": lambda x: x.lower()[::-1],
            "neg": lambda x: tuple(-ord(c) for c in x.lower()),
            "orig": lambda x: str(x),      # the key function sees the preserved spelling
            # keys that rank several fields equal: sorted() is stable, ties keep their order
            "lenonly": lambda x: len(x),
            "first": lambda x: x.lower()[:1] in "pvx",
            "const": lambda x: 0}
MUT = ("set", "del", "pop", "setdefault", "clear", "order_first", "order_last", "order_before",
       "order_after", "sort", "update")


def _key(rng):
    return rng.choice(rng.choice(NAMES))


def generate(seed, run, tier):
    rw = stream_rng(seed, ID, run, "world")
    rs = stream_rng(seed, ID, run, "swarm")
    rq = stream_rng(seed, ID, run, "sched")
    start = rs.choice(["empty", "dict", "text", "lines", "stream"])
    items = []
    if start != "empty":
        names = list(NAMES)
        rw.shuffle(names)
        for fam in names[:rw.randint(1, 6)]:
            items.append([rw.choice(fam), rw.choice(VALUES)])
        if start == "dict" and rw.random() < 0.3 and items:
            fam = [f for f in NAMES if items[0][0] in f][0]
            items.append([rw.choice(fam), rw.choice(VALUES)])    # case-variant duplicate
    before = []
    if start == "stream":
        # the paragraph is one of several read from one stream (iter_paragraphs); the ones
        # before it spell the same field names their own way
        for _ in range(rw.randint(0, 2)):
            names = list(NAMES)
            rw.shuffle(names)
            before.append([[rw.choice(fam), rw.choice(VALUES[:6])]
                           for fam in names[:rw.randint(1, 6)]])
    w = {"set": rs.choice([2, 4, 8]), "del": rs.choice([1, 2, 4]), "get": rs.choice([0, 1]),
         "pop": rs.choice([0, 1]), "setdefault": rs.choice([0, 1]), "clear": rs.choice([0, 0, 1]),
         "order_first": rs.choice([0, 2, 4]), "order_last": rs.choice([0, 2, 4]),
         "order_before": rs.choice([0, 2, 4]), "order_after": rs.choice([0, 2, 4]),
         "sort": rs.choice([0, 1, 2]), "copy": rs.choice([0, 1, 2]),
         "reparse": rs.choice([0, 1, 2]), "drop": rs.choice([0, 1]), "gc": rs.choice([0, 1]),
         "update": rs.choice([0, 1]), "badset": rs.choice([0, 1]), "in": rs.choice([0, 1, 2])}
    kinds = [k for k, v in w.items() for _ in range(v)] or ["set"]
    steps = []
    # looking at a mapping is itself a sequence of calls on it: how often the clients look is
    # part of the schedule (operation results are always checked; everything is read at the end)
    observe_rate = rs.choice([1.0, 1.0, 0.5, 0.15, 0.0])
    for _ in range(rs.choice([5, 15, 30, 60] if tier == "quick" else [5, 15, 30, 60, 120])):
        k = rq.choice(kinds)
        st = {"h": rq.randrange(4), "op": k, "observe": rq.random() < observe_rate}
        if k in ("set", "setdefault"):
            st["k"], st["v"] = _key(rq), rq.choice(VALUES)
        elif k == "badset":
            st["op"] = "set"
            st["k"], st["v"] = _key(rq), rq.choice(BADVALUES)
        elif k in ("del", "get", "pop", "order_first", "order_last", "in"):
            st["k"] = _key(rq)
        elif k in ("order_before", "order_after"):
            st["k"], st["ref"] = _key(rq), _key(rq)
        elif k == "sort":
            st["key"] = rq.choice([None, None, "len", "rev", "neg", "orig", "lenonly", "first", "const",
                                    "byvalue"])
        elif k == "update":
            st["items"] = [[_key(rq), rq.choice(VALUES)] for _ in range(rq.randint(1, 3))]
        elif k == "reparse":
            st["how"] = rq.choice(["str", "str", "bytes", "file", "lines"])
        steps.append(st)
    if rs.random() < 0.002:
        steps.insert(rq.randrange(len(steps) + 1),
                     {"h": rq.randrange(4), "op": "bulk", "n": rs.choice([300, 1100, 1100]),
                      "observe": True})
    return {"world": {"start": start, "items": items, "before": before,
                      # a client that only ever uses the spelling it stored, and never asks
                      # for keys that are not there (what it looks at is part of the schedule)
                      "quiet_observer": rs.random() < 0.25}, "trace": steps}


def describe(case):
    return {"start": case["world"], "trace": case["trace"][:40], "trace_len": len(case["trace"])}


# --------------------------------------------------------------------------- model

class M(object):
    def __init__(self, rows=None):
        self.rows = [list(r) for r in (rows or [])]   # [lower, spelling, value]

    def idx(self, k):
        lk = k.lower()
        for i, r in enumerate(self.rows):
            if r[0] == lk:
                return i
        return -1

    def set(self, k, v):
        i = self.idx(k)
        if i >= 0:
            self.rows[i][2] = v
        else:
            self.rows.append([k.lower(), k, v])

    def dump(self):
        out = []
        for _, sp, v in self.rows:
            out.append("%s:%s\n" % (sp, v) if (not v or v[0] == "\n") else "%s: %s\n" % (sp, v))
        return "".join(out)


def valid_value(v):
    if v.endswith("\n"):
        return False
    # a bare carriage return is a line break for the parser, like "\n" and "\r\n"
    for line in re.split(r"\r\n|\r|\n", v)[1:]:
        if not line or not line[0].isspace():
            return False
    return True


def _initial_text(items):
    return M([[k.lower(), k, v] for k, v in _dedupe(items)]).dump()


def _dedupe(items):
    m = M()
    for k, v in items:
        m.set(k, v)
    return [(r[1], r[2]) for r in m.rows]


# --------------------------------------------------------------------------- execution

def _check_handle(d, m, hi, si, op, quiet=False):
    where = {"step": si, "handle": hi}
    try:
        keys = list(d)
        n = len(d)
        dump = d.dump()
    except Exception as e:   # pylint: disable=broad-except
        where["error"] = repr(e)
        raise Violation("observation-raised", op, where)
    want = [r[1] for r in m.rows]
    if keys != want:
        where.update(got=keys, want=want)
        raise Violation("keys-or-order-or-spelling-differ", op, where)
    if n != len(want):
        where.update(got=n, want=len(want))
        raise Violation("len-differs", op, where)
    if dump != m.dump():
        where.update(got=dump[:2000], want=m.dump()[:2000])
        raise Violation("dump-differs", op, where)
    if (si + hi) % 3 == 0:
        # the same text through a file object, binary and text mode
        import io
        bfd, tfd = io.BytesIO(), io.StringIO()
        try:
            d.dump(bfd)
            d.dump(tfd, text_mode=True)
        except Exception as e:   # pylint: disable=broad-except
            where["error"] = repr(e)
            raise Violation("observation-raised", op, where)
        if bfd.getvalue() != dump.encode("utf-8") or tfd.getvalue() != dump:
            where.update(got=bfd.getvalue()[:300], want=dump[:300])
            raise Violation("dump-differs", op, where)
    for lower, sp, v in m.rows:
        for variant in ((sp,) if quiet else
                        [v_ for v_ in (sp, lower, lower.upper()) if v_.lower() == lower]):
            try:
                got = d[variant]
            except Exception as e:   # pylint: disable=broad-except
                where.update(key=variant, error=repr(e))
                raise Violation("lookup-raised", op, where)
            if got != v or variant not in d:
                where.update(key=variant, got=got, want=v, contains=variant in d)
                raise Violation("value-or-membership-differs", op, where)
    present = set(r[0] for r in m.rows)
    for fam in ([] if quiet else NAMES):
        if fam[0].lower() not in present:
            if fam[1] in d:
                where.update(key=fam[1])
                raise Violation("missing-key-reported-present", op, where)
            try:
                d[fam[2]]
            except KeyError:
                pass
            except Exception as e:   # pylint: disable=broad-except
                where.update(key=fam[2], error=repr(e))
                raise Violation("missing-key-lookup-raised-other-than-KeyError", op, where)
            else:
                where.update(key=fam[2])
                raise Violation("missing-key-lookup-succeeded", op, where)
    if list(d.keys()) != want or [list(x) for x in d.items()] != [[r[1], r[2]] for r in m.rows]:
        raise Violation("keys()/items()-differ", op, where)


def execute(case):
    from debian.deb822 import Deb822
    out = Outcome()
    log = EventLog()
    w = case["world"]
    items = [tuple(x) for x in w.get("items", [])]
    start = w.get("start", "empty")
    if start == "empty" or not items:
        d0 = Deb822()
        m0 = M()
    elif start == "dict":
        d0 = Deb822(dict(_seq_dict(items)))
        m0 = M()
        for k, v in _seq_dict(items).items():
            m0.set(k, v)
    elif start == "stream":
        text = "\n".join([_initial_text([tuple(x) for x in b]) for b in w.get("before", [])] +
                         [_initial_text(items)])
        got = list(Deb822.iter_paragraphs(text, use_apt_pkg=False))
        if len(got) != len(w.get("before", [])) + 1:
            raise Violation("paragraph-count-differs", "iter_paragraphs",
                            {"got": len(got), "want": len(w.get("before", [])) + 1})
        d0 = got[-1]
        m0 = M([[k.lower(), k, v] for k, v in _dedupe(items)])
        out.probe("paragraph_read_from_a_stream_of_several")
        del got
    else:
        text = _initial_text(items)
        d0 = Deb822(text if start == "text" else text.split("\n"))
        m0 = M([[k.lower(), k, v] for k, v in _dedupe(items)])
        out.probe("reparsed_handle")
    sut = [d0]
    model = [m0]
    quiet = bool(w.get("quiet_observer"))
    if quiet:
        out.probe("quiet_observer")
    inter = []
    reorders = failures = 0
    prev_op = None
    deleted_lower = set()
    gc_was = gc.isenabled()
    gc.disable()
    try:
        for hi in range(len(sut)):
            _check_handle(sut[hi], model[hi], hi, -1, "start", quiet)
        for si, st in enumerate(case["trace"]):
            op = st["op"]
            if op == "gc":
                gc.collect()
                out.probe("gc_step")
                inter.append(("gc",))
            elif op == "drop":
                if len(sut) > 1:
                    hi = st["h"] % len(sut)
                    del sut[hi]
                    del model[hi]
                    inter.append((hi, "drop"))
            elif op == "bulk":
                # a paragraph with very many fields (more than any recursion or table limit)
                hi = st["h"] % len(sut)
                for i_ in range(st["n"]):
                    sut[hi]["Bulk-%05d" % i_] = "v"
                    model[hi].set("Bulk-%05d" % i_, "v")
                out.probe("paragraph_with_over_a_thousand_fields")
                inter.append((hi, "bulk"))
            elif op in ("copy", "reparse"):
                if len(sut) >= 4:
                    continue
                hi = st["h"] % len(sut)
                if op == "copy":
                    new = sut[hi].copy()
                else:
                    how = st.get("how", "str")
                    text = sut[hi].dump()
                    new = Deb822(text if how == "str" else text.encode("utf-8") if how == "bytes"
                                 else io.BytesIO(text.encode("utf-8")) if how == "file"
                                 else text.split("\n"))
                    out.probe("reparsed_handle")
                sut.append(new)
                model.append(M(model[hi].rows))
                inter.append((hi, op))
            else:
                hi = st["h"] % len(sut)
                d, m = sut[hi], model[hi]
                expect = None          # expected exception class name, or None
                k = st.get("k")
                before_rows = copy.deepcopy(m.rows)
                # ---- model side: decide outcome, apply if it succeeds
                if op == "set":
                    if not valid_value(st["v"]):
                        expect = "ValueError"
                        out.probe("failing_op_invalid_value")
                    else:
                        if m.idx(k) < 0 and k.lower() in deleted_lower and \
                                k not in [s for f in NAMES for s in f[:1]]:
                            out.probe("delete_then_reinsert_in_other_case")
                        if prev_op == "clear":
                            out.probe("clear_then_reuse")
                        m.set(k, st["v"])
                    call = lambda: d.__setitem__(k, st["v"])
                elif op == "setdefault":
                    if m.idx(k) < 0:
                        m.set(k, st["v"])
                    call = lambda: d.setdefault(k, st["v"])
                elif op == "update":
                    for kk, vv in st["items"]:
                        m.set(kk, vv)
                    call = lambda: d.update([tuple(x) for x in st["items"]])
                elif op == "in":
                    call = lambda: k in d
                elif op == "get":
                    i = m.idx(k)
                    if i < 0:
                        expect = "KeyError"
                    call = lambda: d[k]
                elif op in ("del", "pop"):
                    i = m.idx(k)
                    if i < 0:
                        expect = "KeyError"
                    else:
                        if i == 0:
                            prev_removed_head = True
                        deleted_lower.add(k.lower())
                        del m.rows[i]
                    call = (lambda: d.__delitem__(k)) if op == "del" else (lambda: d.pop(k))
                elif op == "clear":
                    m.rows = []
                    call = d.clear
                elif op in ("order_first", "order_last"):
                    i = m.idx(k)
                    if i < 0:
                        expect = "KeyError"
                    else:
                        if len(m.rows) == 1:
                            out.probe("reorder_the_only_element")
                        r = m.rows.pop(i)
                        if op == "order_first":
                            m.rows.insert(0, r)
                        else:
                            m.rows.append(r)
                    call = lambda: getattr(d, op)(k)
                elif op in ("order_before", "order_after"):
                    ref = st["ref"]
                    i, j = m.idx(k), m.idx(ref)
                    if k.lower() == ref.lower():
                        expect = "ValueError"
                        out.probe("failing_op_valueerror_self_reorder")
                    elif i < 0 or j < 0:
                        expect = "KeyError"
                    else:
                        if len(m.rows) == 2:
                            out.probe("reorder_head_tail_adjacent")
                        if op == "order_before" and j == len(m.rows) - 1 and \
                                prev_op in ("del", "pop"):
                            out.probe("remove_head_then_insert_before_tail")
                        r = m.rows.pop(i)
                        j = m.idx(ref)
                        m.rows.insert(j if op == "order_before" else j + 1, r)
                    call = lambda: getattr(d, op)(k, ref)
                elif op == "sort":
                    keyname = st.get("key")
                    if keyname is None:
                        m.rows.sort(key=lambda r: r[1].lower())
                        call = d.sort_fields
                    elif keyname == "byvalue":
                        # a key function that consults the mapping it sorts
                        vals = dict((r[0], r[2]) for r in m.rows)
                        m.rows.sort(key=lambda r: vals[r[0]])
                        out.probe("sort_key_consults_the_mapping")
                        call = lambda: d.sort_fields(key=lambda n: d[n])
                    else:
                        f = SORTKEYS[keyname]
                        m.rows.sort(key=lambda r: f(r[1]))
                        out.probe("sort_custom_key")
                        if len(set(f(r[1]) for r in m.rows)) < len(m.rows):
                            out.probe("sort_key_with_ties")
                        # the client writes its key function where it calls sort_fields: a
                        # new, short-lived function object every time
                        call = lambda: d.sort_fields(key=lambda name_: f(name_))
                else:
                    continue
                if expect is not None:
                    m.rows = before_rows
                # ---- SUT side
                try:
                    res = call()
                    got = None
                except Exception as e:   # pylint: disable=broad-except
                    res = None
                    got = type(e).__name__
                log.add(si, hi, op, k, st.get("ref"), st.get("v"), st.get("key"), got)
                inter.append((hi, op, got))
                where = {"step": si, "handle": hi, "op": op, "key": k, "ref": st.get("ref"),
                         "value": st.get("v")}
                if got != expect:
                    where.update(got_exception=got, want_exception=expect)
                    raise Violation("wrong-exception-or-missing-exception", op, where)
                if expect == "KeyError":
                    out.probe("failing_op_keyerror")
                if expect is not None:
                    failures += 1
                if op.startswith("order_") or op == "sort":
                    if expect is None:
                        reorders += 1
                if op == "in" and res != (m.idx(k) >= 0):
                    where.update(got=res, want=m.idx(k) >= 0)
                    raise Violation("value-or-membership-differs", op, where)
                if op == "get" and expect is None and res != m.rows[m.idx(k)][2]:
                    where.update(got=res, want=m.rows[m.idx(k)][2])
                    raise Violation("value-or-membership-differs", op, where)
                if op == "pop" and expect is None and res != before_rows[M(before_rows).idx(k)][2]:
                    where.update(got=res)
                    raise Violation("pop-returned-wrong-value", op, where)
                if op in MUT and len(sut) > 1:
                    out.probe("copy_then_diverge")
            out.steps += 1
            prev_op = op
            if st.get("observe", True):
                for hi in range(len(sut)):
                    _check_handle(sut[hi], model[hi], hi, si, op, quiet)
            else:
                out.probe("step_without_observation")
            out.states.add(stable_hash([m.rows for m in model]))
        for hi in range(len(sut)):
            _check_handle(sut[hi], model[hi], hi, len(case["trace"]), "end", quiet)
    finally:
        if gc_was:
            gc.enable()
    out.digest = log.digest()
    out.interleaving = stable_hash(inter)
    out.nontrivial = reorders > 0 and failures > 0
    return out


def _seq_dict(items):
    d = {}
    for k, v in items:
        d[k] = v
    return d


def shrink_candidates(case):
    w = case["world"]
    for i in range(len(w.get("items", []))):
        c = copy.deepcopy(case)
        del c["world"]["items"][i]
        yield c
    for i in range(len(w.get("before") or [])):
        c = copy.deepcopy(case)
        del c["world"]["before"][i]
        yield c
    if w.get("start") not in ("empty", "dict"):
        c = copy.deepcopy(case)
        c["world"]["start"] = "dict"
        yield c
    for i, st in enumerate(case["trace"]):
        if st.get("h", 0) != 0:
            c = copy.deepcopy(case)
            c["trace"][i]["h"] = 0
            yield c
        if st.get("v") not in (None, "1"):
            c = copy.deepcopy(case)
            c["trace"][i]["v"] = "1"
            yield c
