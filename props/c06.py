"""C06 -- ar members are exact, isolated, file-like views of the archive.

Simulated: several clients, one per ArMember object reachable from one or more ArFile
instances that share ONE caller-supplied file object (or re-open the archive by file name),
issuing read / readline / readlines / seek / tell calls in a seeded interleaving.  Oracle: a
BytesIO holding that member's data, driven by the same calls (result and position compared
after every call), plus the listing.
"""
import atexit
import copy
import gc
import io
import os
import shutil
import tempfile

from simkit.core import (EventLog, Outcome, Violation, stream_rng, stable_hash, enc_bytes,
                         dec_bytes)
from simkit.simfile import SimFile
from simkit import arwriter

ID = "C06"
LEVEL = "exploration"
TIERS = {"quick": {"runs": 100000, "wall": 120}, "thorough": {"runs": 1500000, "wall": 1500}}
HASHSEED_RUNS = {"quick": 300, "thorough": 3000}    # S7: identical event logs under other hash seeds
RULE = ("world = seeded ar archive (0..6 members, GNU or BSD short names incl. duplicates, "
        "sizes 0/odd/even, binary payloads with and without final newline, payloads that "
        "contain header-looking text), opened by 1..3 ArFile instances over one shared file "
        "object and/or by file name; trace = seeded interleaving of read/readline/readlines/"
        "seek/tell calls (<= 60) across all member handles; an evaluation is one run; "
        "distinct = distinct (actor, op) sequence hash; non-trivial = at least two different "
        "member handles were operated on and at least one call returned data"
        '; later additions: handles through getmember / [] / full and abandoned iteration / extractfile, listing before or after the clients, an earlier archive at the same path with a live reader, members of up to 70 KiB, names of 16 characters and with non-ASCII blanks at their edges, the archive object dropped while members are kept, the archive starting inside a larger file object')
REAL = ["debian.arfile.ArFile / ArMember (all of it)", "io.BytesIO underneath the shared "
        "file object", "the tmpfs file when the archive is opened by name"]
STUB = ["the caller-supplied file object: simkit.simfile.SimFile (a journaling BytesIO)"]
ASSUMPTIONS = [
    "archives are well formed and use short names only (no GNU '//' long-name table, no '/' "
    "symbol table, names without '/' or blanks) - the property's domain",
    "seek targets are non-negative (the property's domain); seek() return values are not "
    "compared (ArMember.seek is declared to return None), the position is compared via tell()",
    "read(0) is excluded: ArMember documents size=0 as 'everything', an API difference the "
    "property does not speak about; readlines() is called without a size hint",
    "no faults are injected into the file object: the property promises nothing for "
    "truncated or corrupt archives",
]
PROBES = ["extractfile_before_lookup", "clients_start_before_any_listing", "file_replaced_under_live_reader",
          "readline_unterminated_last_line_odd", "readline_unterminated_last_line_even",
          "readline_n_crossing_member_end", "read_after_seek_past_end",
          "alternating_single_byte_reads", "duplicate_name_lookup", "empty_member",
          "two_arfiles_one_fileobj", "opened_by_filename", "archive_object_dropped_members_kept", "archive_starts_inside_the_file_object", "more_than_64_member_handles_alive", "readlines_on_non_last_member",
          "bsd_style_name", "payload_contains_header_magic"]

_STATE = {}


def _scratch():
    pid = os.getpid()
    if _STATE.get("pid") != pid:
        base = os.environ.get("VERIF_SCRATCH")
        if not base:
            base = "/dev/shm" if os.access("/dev/shm", os.W_OK) else tempfile.gettempdir()
        root = tempfile.mkdtemp(prefix="verif-c06-%d-" % pid, dir=base)
        _STATE.update(pid=pid, root=root)
        atexit.register(shutil.rmtree, root, True)
        try:
            from multiprocessing import util as _mpu
            _mpu.Finalize(None, shutil.rmtree, args=(root, True), exitpriority=10)
        except Exception:   # pylint: disable=broad-except
            pass
    return _STATE["root"]


NAME_CH = "abcXYZ019._+-"
CHUNKS = [b"\n", b"\n\n", b"`\n", b"!<arch>\n", b"abc", b"\x00\xff", b"line\n", b"x",
          b"debian-binary   1342943816  0     0     100644  4         `\n", b" ", b"\r\n"]


def _gen_data(rng, size_class):
    if size_class == 0:
        return b""
    if size_class == 5:
        # a line that spans more than any plausible block size (64 KiB)
        body = bytes(rng.choice(b"abcdefgh") for _ in range(97)) * rng.choice([800, 1500])
        if rng.random() < 0.5:
            cut = rng.randrange(len(body))
            body = body[:cut] + b"\n" + body[cut:]
        return body + rng.choice([b"", b"\n", b"tail"])
    if size_class == 4:
        # beyond one I/O buffer, few or no newlines
        body = bytes(rng.choice(b"abcdefgh") for _ in range(64)) * rng.choice([130, 200, 300])
        if rng.random() < 0.5:
            cut = rng.randrange(len(body))
            body = body[:cut] + b"\n" + body[cut:]
        return body + rng.choice([b"", b"\n", b"tail"])
    target = {1: rng.randint(1, 3), 2: rng.randint(4, 20), 3: rng.randint(21, 64)}[size_class]
    out = b""
    while len(out) < target:
        if rng.random() < 0.6:
            out += rng.choice(CHUNKS)
        else:
            out += bytes(rng.choice(b"qwertyuiopQWERTY0123456789") for _ in
                         range(rng.randint(1, 6)))
    out = out[:target]
    r = rng.random()
    if r < 0.35 and out:
        out = out[:-1] + b"\n"       # terminated
    elif r < 0.7 and out and out.endswith(b"\n"):
        out = out[:-1] + b"z"       # unterminated last line
    return out


def generate(seed, run, tier):
    rw = stream_rng(seed, ID, run, "world")
    rs = stream_rng(seed, ID, run, "swarm")
    rq = stream_rng(seed, ID, run, "sched")
    nm = rs.choice([0, 1, 2, 2, 3, 3, 4, 6])
    many = rs.random() < 0.01
    if many:
        # more live member handles than any internal pool or table is likely to hold
        nm = rs.choice([70, 100, 140])
    names_pool = ["".join(rw.choice(NAME_CH) for _ in range(rw.choice([1, 2, 5, 9, 14, 15, 16])))
                  for _ in range(max(1, nm))]
    members = []
    for i in range(nm):
        name = rw.choice(names_pool) if rw.random() < 0.3 else names_pool[i]
        if name.strip(".") == "" and rw.random() < 0.5:
            name = "m%d" % i
        if rs.random() < 0.03:
            # blanks that are not ASCII blanks at the edges of a name
            name = rw.choice(["\x1cname", "name\x1f", "\u00a0x", "x\u3000", "\x85y", "n\u2003"])
        style = "bsd" if (rs.random() < 0.25 or len(name) == 16) else "gnu"
        members.append({"name": name, "style": style,
                        "data": enc_bytes(_gen_data(rw, (5 if rs.random() < 0.2 else 4)
                                                    if rs.random() < 0.03 else
                                                    rw.choice([0, 1, 2, 2, 3, 3]))),
                        "mtime": rw.choice([0, 1342943816, 999999999999]),
                        "uid": rw.choice([0, 1000, 999999]), "gid": rw.choice([0, 50, 999999]),
                        "mode": rw.choice([0o100644, 0o100755, 0o644])})
    if len(members) >= 2 and rs.random() < 0.12:
        # two members with byte-identical content (equal but not the same)
        a, b = rw.sample(range(len(members)), 2)
        members[b]["data"] = members[a]["data"]
    narch = rs.choice([1, 1, 2, 2, 3])
    archives = [rs.choice(["fileobj", "fileobj", "filename"]) for _ in range(narch)]
    # is the listing taken before the clients start, or only at the end (lookups and
    # abandoned iterations then hit an archive nobody has listed yet)
    list_first = [rs.random() < 0.5 for _ in range(narch)]
    # an earlier, different archive at the same path whose reader is still alive
    prior = None
    if "filename" in archives and rs.random() < 0.4:
        prior = [{"name": (rw.choice(names_pool)[:15] if rw.random() < 0.5 else "p%d" % k),
                  "data": enc_bytes(_gen_data(rw, 3))} for k in range(rw.randint(1, 3))]
        if rs.random() < 0.5 and len(members) >= 2:
            # same members in reverse order: a different archive of identical byte length
            prior = "reversed"
    # swarm: op weights
    w = {"read_n": rs.choice([1, 4, 8]), "read_all": rs.choice([0, 1, 2]),
         "read_neg": rs.choice([0, 1]), "readline": rs.choice([1, 4, 8]),
         "readline_n": rs.choice([0, 2, 4]), "readlines": rs.choice([0, 1, 2]),
         "seek": rs.choice([1, 3, 6]), "tell": rs.choice([0, 1, 2])}
    kinds = [k for k, v in w.items() for _ in range(v)] or ["read_n"]
    steps = []
    nsteps = rs.choice([5, 15, 30, 60] if tier == "quick" else [5, 15, 30, 60, 120])
    sticky = rs.random()
    cur = (0, 0, "members")
    for _ in range(nsteps if nm else 0):
        if rq.random() > sticky * 0.8:
            cur = (rq.randrange(narch), rq.randrange(nm),
                   rq.choice(["members", "members", "getmember", "getitem", "iter",
                              "iter_partial", "iter_partial", "extractfile"]))
        k = rq.choice(kinds)
        st = {"a": cur[0], "m": cur[1], "via": cur[2], "op": k}
        if k == "read_n":
            st["n"] = rq.choice([1, 1, 2, 3, 5, 8, 64, 1000])
            if rq.random() < 0.3:
                st["rel"] = rq.choice([-1, 0, 1])      # n = bytes remaining + rel
        elif k == "readline_n":
            st["n"] = rq.choice([0, 1, 2, 5, 70, -1])
            if rq.random() < 0.3:
                st["rel"] = rq.choice([-1, 0, 1])      # n = rest of the line + rel
        elif k == "seek":
            st["t"] = rq.choice([0, 0, 1, 2, 3, 5, 8, 13, 21, 40, 63, 64, 65, 70])
            st["w"] = rq.choice([0, 0, 1, 2])
            st["rel_end"] = rq.random() < 0.5   # interpret t as distance from the end
        steps.append(st)
    # lifetime: the clients take the members and let go of the archive object itself
    if many:
        # tiny members, distinct names; every member is touched once before the clients start
        for i, m_ in enumerate(members):
            m_["name"] = "n%d" % i
            m_["data"] = enc_bytes(rw.choice([b"x\ny", b"q\n", b"ab", b"l1\nl2\n"]))
        archives = [rs.choice(["filename", "filename", "fileobj"]) for _ in archives]
        prior = None
    detach = [rs.random() < 0.2 for _ in range(narch)]
    # the file object handed over holds other data before the archive and is positioned at
    # the archive's first byte (an even or odd number of bytes in)
    lead = rs.choice([0] * 6 + [1, 7, 8, 60, 61])
    return {"world": {"members": members, "archives": archives, "list_first": list_first,
                      "prior": prior, "detach": detach, "lead": lead, "touch_all": many},
            "trace": steps}


def describe(case):
    w = case["world"]
    return {"members": [{"name": m["name"], "style": m["style"], "size": len(m["data"]["$b"])}
                        for m in w["members"]], "archives": w["archives"],
            "trace": case["trace"][:25], "trace_len": len(case["trace"])}


def _call(fn, *a):
    try:
        return ("ok", fn(*a))
    except Exception as e:   # pylint: disable=broad-except
        return ("exc", type(e).__name__ + ": " + str(e)[:80])


def execute(case):
    from debian import arfile
    out = Outcome()
    log = EventLog()
    world = case["world"]
    members = world["members"]
    datas = [dec_bytes(m["data"]) for m in members]
    blob = arwriter.build([dict(m, data=d) for m, d in zip(members, datas)])
    lead = int(world.get("lead") or 0)
    shared = SimFile(b"!<arch>\nx"[:lead].ljust(lead, b"`") + blob)
    if lead:
        out.probe("archive_starts_inside_the_file_object")
    path = None
    ars = []
    stale = []
    kept = {}
    try:
        for kind in world["archives"]:
            if kind == "filename":
                if path is None:
                    path = os.path.join(_scratch(), "a.ar")
                    if world.get("prior"):
                        # history: another archive lived at this path, its reader read
                        # something and is still alive; then the file was replaced
                        if world["prior"] == "reversed":
                            pmembers = [dict(m, data=d) for m, d in zip(members, datas)][::-1]
                        else:
                            pmembers = [{"name": m["name"], "data": dec_bytes(m["data"])}
                                        for m in world["prior"]]
                        pm = [(m["name"], m["data"]) for m in pmembers]
                        fd = os.open(path, os.O_WRONLY | os.O_CREAT | os.O_TRUNC, 0o644)
                        os.write(fd, arwriter.build(pmembers))
                        os.close(fd)
                        old_ar = arfile.ArFile(filename=path)
                        for m_, (n_, d_) in zip(old_ar.getmembers(), pm):
                            if m_.read() != d_:
                                raise Violation("result-differs-from-in-memory-file", "read",
                                                {"where": "prior archive"})
                        stale.append(old_ar)
                        out.probe("file_replaced_under_live_reader")
                        tmp = path + ".tmp"
                        fd = os.open(tmp, os.O_WRONLY | os.O_CREAT | os.O_TRUNC, 0o644)
                        os.write(fd, blob)
                        os.close(fd)
                        os.replace(tmp, path)
                    else:
                        fd = os.open(path, os.O_WRONLY | os.O_CREAT | os.O_TRUNC, 0o644)
                        os.write(fd, blob)
                        os.close(fd)
                r = _call(lambda: arfile.ArFile(filename=path))
                out.probe("opened_by_filename")
            else:
                # the caller hands over a file object positioned at the archive's start
                shared.seek(lead)
                r = _call(lambda: arfile.ArFile(fileobj=shared))
            if r[0] != "ok":
                raise Violation("archive-rejected", "open", {"error": r[1], "mode": kind})
            ars.append(r[1])
        if sum(1 for k in world["archives"] if k == "fileobj") >= 2:
            out.probe("two_arfiles_one_fileobj")
        # ---- listing
        names = [m["name"] for m in members]
        last = {}
        for i, n in enumerate(names):
            last[n] = i
        lf = world.get("list_first") or [True] * len(ars)

        def check_listing(ai, ar):
            got = ar.getmembers()
            listing = [(m.name, m.size, m.owner, m.group, m.mtime) for m in got]
            want = [(m["name"], len(d), m["uid"], m["gid"], m["mtime"])
                    for m, d in zip(members, datas)]
            log.add("list", ai, listing)
            if listing != want:
                raise Violation("listing-differs", "getmembers", {"got": listing, "want": want})
            if ar.getnames() != names:
                raise Violation("listing-differs", "getnames", {"got": ar.getnames(),
                                                                "want": names})
            if [m.name for m in ar] != names:
                raise Violation("listing-differs", "iter", {})
            for n, i in last.items():
                if ar.getmember(n) is not got[i] or ar[n] is not got[i]:
                    raise Violation("lookup-not-last-of-name", "getmember",
                                    {"name": n, "want_index": i})
            r = _call(ar.getmember, "no-such-member/")
            if r[0] != "exc" or not r[1].startswith("KeyError"):
                raise Violation("lookup-of-missing-name", "getmember", {"got": r})

        for ai, ar in enumerate(ars):
            if lf[ai % len(lf)]:
                check_listing(ai, ar)
            else:
                out.probe("clients_start_before_any_listing")
        if len(set(names)) < len(names):
            out.probe("duplicate_name_lookup")
        if any(len(d) == 0 for d in datas):
            out.probe("empty_member")
        if any(m["style"] == "bsd" for m in members):
            out.probe("bsd_style_name")
        if any(b"`\n" in d for d in datas):
            out.probe("payload_contains_header_magic")
        # ---- lifetime: members taken, archive object dropped (and collected)
        detach = world.get("detach") or []
        for ai in range(len(ars)):
            if ai < len(detach) and detach[ai] and members:
                kept[ai] = list(ars[ai].getmembers())
                if len(kept[ai]) != len(members):
                    raise Violation("listing-differs", "getmembers",
                                    {"archive": ai, "got": len(kept[ai]), "want": len(members)})
                ars[ai] = None
                out.probe("archive_object_dropped_members_kept")
        r = ar = None
        if kept:
            gc.collect()
        # ---- interleaved clients
        models = {}
        if world.get("touch_all"):
            # every member of every archive is opened (one byte read) and stays alive
            out.probe("more_than_64_member_handles_alive")
            for ai_ in range(len(ars)):
                hs_ = kept[ai_] if ai_ in kept else ars[ai_].getmembers()
                for mi_, h_ in enumerate(hs_[:len(members)]):
                    models[(ai_, mi_)] = io.BytesIO(datas[mi_])
                    want_, got_ = models[(ai_, mi_)].read(1), _call(h_.read, 1)
                    if got_ != ("ok", want_):
                        raise Violation("result-differs-from-in-memory-file", "read_n",
                                        {"archive": ai_, "member": mi_, "got": got_,
                                         "want": want_, "where": "first touch of every member"})
        inter = []
        used = set()
        returned_data = False
        prev = None
        for si, st in enumerate(case["trace"]):
            if not members or not ars:
                break
            ai = st["a"] % len(ars)
            mi = st["m"] % len(members)
            via = st.get("via", "members")
            ar = ars[ai]
            try:
                if ai in kept:
                    h = kept[ai][mi]
                elif via in ("getmember", "getitem"):
                    mi = last[names[mi]]
                    h = ar.getmember(names[mi]) if via == "getmember" else ar[names[mi]]
                elif via == "extractfile":
                    # documented to return the FIRST member with that name
                    mi = names.index(names[mi])
                    h = ar.extractfile(names[mi])
                    if h is None:
                        raise KeyError(names[mi])
                    out.probe("extractfile_before_lookup")
                elif via == "iter":
                    h = list(ar)[mi]
                elif via == "iter_partial":
                    # an iteration abandoned as soon as the wanted member was reached
                    it = iter(ar)
                    h = None
                    for _ in range(mi + 1):
                        h = next(it)
                    del it
                else:
                    h = ar.getmembers()[mi]
            except (IndexError, KeyError, StopIteration) as e:
                raise Violation("lookup-not-last-of-name" if via in ("getmember", "getitem")
                                else "listing-differs", via,
                                {"step": si, "archive": ai, "member": mi, "name": names[mi],
                                 "error": repr(e), "members_expected": len(names)})
            if h.name != names[mi] or h.size != len(datas[mi]):
                raise Violation("lookup-not-last-of-name" if via in ("getmember", "getitem")
                                else "listing-differs", via,
                                {"step": si, "archive": ai, "member": mi, "got_name": h.name,
                                 "got_size": h.size, "want_name": names[mi],
                                 "want_size": len(datas[mi])})
            key = (ai, mi)
            if key not in models:
                models[key] = io.BytesIO(datas[mi])
            model = models[key]
            size = len(datas[mi])
            op = st["op"]
            mpos = model.tell()
            if op == "read_n":
                n = st["n"]
                if "rel" in st and size - mpos + st["rel"] >= 1:
                    n = size - mpos + st["rel"]
                want, got = model.read(n), _call(h.read, n)
                if n == 1 and prev is not None and prev[0] == "read_n1" and prev[1] != key:
                    out.probe("alternating_single_byte_reads")
                if mpos > size:
                    out.probe("read_after_seek_past_end")
            elif op == "read_all":
                want, got = model.read(), _call(h.read)
                if mpos > size:
                    out.probe("read_after_seek_past_end")
            elif op == "read_neg":
                want, got = model.read(-1), _call(h.read, -1)
            elif op == "readline":
                rest = datas[mi][mpos:]
                if rest and b"\n" not in rest:
                    out.probe("readline_unterminated_last_line_" +
                              ("odd" if size % 2 else "even"))
                want, got = model.readline(), _call(h.readline)
            elif op == "readline_n":
                n = st["n"]
                rest = datas[mi][mpos:]
                if "rel" in st and rest:
                    eol = rest.find(b"\n")
                    n = max(0, (len(rest) if eol < 0 else eol + 1) + st["rel"])
                if n > len(rest) and b"\n" not in rest and rest:
                    out.probe("readline_n_crossing_member_end")
                want, got = model.readline(n), _call(h.readline, n)
            elif op == "readlines":
                if mi < len(members) - 1:
                    out.probe("readlines_on_non_last_member")
                want, got = model.readlines(), _call(h.readlines)
            elif op == "seek":
                t, w = st["t"], st["w"]
                if st.get("rel_end"):
                    t = max(0, size - t)
                off = t if w == 0 else t - mpos if w == 1 else t - size
                model.seek(off, w)
                want = None
                got = _call(h.seek, off, w)
                if got[0] == "ok":
                    got = ("ok", None)     # return value not compared
            elif op == "tell":
                want, got = model.tell(), _call(h.tell)
            else:
                continue
            used.add(key)
            inter.append((ai, mi, op))
            prev = ("read_n1" if op == "read_n" and st["n"] == 1 else op, key)
            out.steps += 1
            tell = _call(h.tell)
            log.add(si, ai, mi, op, st.get("n"), st.get("rel"), st.get("t"), st.get("w"), got, tell)
            detail = {"step": si, "archive": ai, "member": mi, "name": names[mi],
                      "member_size": size, "op": op, "args": {k: st[k] for k in
                                                              ("n", "t", "w") if k in st},
                      "position_before": mpos}
            if got != ("ok", want):
                detail.update(got=got, want=want)
                raise Violation("result-differs-from-in-memory-file", op, detail)
            if tell != ("ok", model.tell()):
                detail.update(tell=tell, want_tell=model.tell())
                raise Violation("position-differs-from-in-memory-file", op, detail)
            if isinstance(want, (bytes, list)) and want:
                returned_data = True
            out.states.add(stable_hash([len(members), sorted(
                (k[0], k[1], m.tell()) for k, m in models.items())]))
        for ai, ar in enumerate(ars):
            if not lf[ai % len(lf)] and ar is not None:
                check_listing(ai, ar)
        # ---- end of run: every touched handle still yields exactly its bytes
        for (ai, mi) in sorted(models):
            got_members = kept[ai] if ai in kept else ars[ai].getmembers()
            if len(got_members) != len(members):
                raise Violation("listing-differs", "getmembers",
                                {"archive": ai, "got": len(got_members), "want": len(members)})
            h = got_members[mi]
            h.seek(0)
            got = _call(h.read)
            if got != ("ok", datas[mi]):
                raise Violation("final-full-read-differs", "read",
                                {"archive": ai, "member": mi, "got": got, "want": datas[mi]})
        out.count("shared_fileobj_reads", shared.reads)
        out.count("shared_fileobj_seeks", shared.seeks)
        out.interleaving = stable_hash(inter)
        out.nontrivial = len(used) >= 2 and returned_data
    finally:
        for ms_ in [a_.getmembers() for a_ in ars + stale if a_ is not None] + \
                [kept[a_] for a_ in sorted(kept)]:
            for m in ms_:
                try:
                    m.close()
                except Exception:   # pylint: disable=broad-except
                    pass
    out.digest = log.digest()
    return out


def shrink_candidates(case):
    w = case["world"]
    ms = w["members"]
    for i in range(len(ms)):
        c = copy.deepcopy(case)
        del c["world"]["members"][i]
        yield c
    if len(w["archives"]) > 1:
        for i in range(len(w["archives"])):
            c = copy.deepcopy(case)
            del c["world"]["archives"][i]
            yield c
    for i, m in enumerate(ms):
        d = dec_bytes(m["data"])
        if len(d) > 1:
            for nd in (d[:len(d) // 2], d[len(d) // 2:], d[:-1], d[1:]):
                c = copy.deepcopy(case)
                c["world"]["members"][i]["data"] = enc_bytes(nd)
                yield c
        if any(ch not in b"a\n" for ch in d):
            c = copy.deepcopy(case)
            c["world"]["members"][i]["data"] = enc_bytes(
                bytes(ch if ch == 10 else 97 for ch in d))
            yield c
        if m["name"] != "m%d" % i and len(set(x["name"] for x in ms)) == len(ms):
            c = copy.deepcopy(case)
            c["world"]["members"][i]["name"] = "m%d" % i
            yield c
        for k, v in (("style", "gnu"), ("mtime", 0), ("uid", 0), ("gid", 0)):
            if m[k] != v:
                c = copy.deepcopy(case)
                c["world"]["members"][i][k] = v
                yield c
    for i, a in enumerate(w["archives"]):
        if a != "fileobj":
            c = copy.deepcopy(case)
            c["world"]["archives"][i] = "fileobj"
            yield c
    if w.get("lead"):
        c = copy.deepcopy(case)
        c["world"]["lead"] = 0
        yield c
    for i, a in enumerate(w.get("detach") or []):
        if a:
            c = copy.deepcopy(case)
            c["world"]["detach"][i] = False
            yield c
    for i, st in enumerate(case["trace"]):
        if st.get("via", "members") != "members":
            c = copy.deepcopy(case)
            c["trace"][i]["via"] = "members"
            yield c
