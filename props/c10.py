"""C10 -- structural edits of a preserved document only move or insert whole elements.

Simulated: clients of the paragraphs of one document plus a 'file editor' issue a seeded
history of order_first/last/before/after (plain and (name, i) keys), sort_fields (default and
custom keys), indexed and un-indexed set/delete, file.insert / file.append of new paragraphs,
indexed reads, and liveness steps.  Oracle: the document-order model (paragraphs = ordered
lists of byte-exact field segments; duplicated names allowed): exact dump equality for
in-paragraph operations, located-in-order + separator rules for paragraph insertion, fresh
parse equal to the model, (name, i) = i-th occurrence in document order.
"""
from simkit.core import stream_rng
from props import repro_sim

ID = "C10"
LEVEL = "exploration"
TIERS = {"quick": {"runs": 32000, "wall": 150}, "thorough": {"runs": 800000, "wall": 1500}}
HASHSEED_RUNS = {"quick": 300, "thorough": 3000}    # S7: identical event logs under other hash seeds
RULE = ("world = seeded document kept as segments, 60% with duplicated field names (parsed with "
        "accept_files_with_duplicated_fields), with or without final newline, free comments "
        "between paragraphs; trace = seeded history (<= 25 steps) of order_first/last/before/"
        "after with plain and (name, i) keys, sort_fields (default/custom), indexed and "
        "un-indexed set/delete, file.insert/append of paragraphs built with "
        "new_empty_paragraph()/from_dict, reads, gc and handle-drop steps, incl. operations "
        "that must fail and change nothing; an evaluation is one run; distinct = distinct "
        "(op, paragraph, handle-kind) sequence hash; non-trivial = at least two mutations"
        '; later additions: steps without any rendering, library-provided key objects as keys, one call repeated up to 90 times, two paragraphs that compare equal, unterminated comment / blank tails, three or more occurrences of a name, names that are no field names')
REAL = ["debian._deb822_repro.parsing (both paragraph implementations, Deb822FileElement."
        "insert/append), tokens.py, debian._util (LinkedList, OrderedSet)"]
STUB = []
ASSUMPTIONS = [
    "the side of a free-floating comment on which an inserted paragraph lands is unspecified "
    "(documented); the oracle only requires that no comment is lost or duplicated, that the "
    "text between paragraphs is blank lines and comments, and that neighbours do not merge",
    "an out-of-range occurrence index may be reported as KeyError or IndexError",
    "re-ordering a missing field relative to itself may raise KeyError or ValueError",
    "newline is \\n; values follow the default dict view semantics",
]
PROBES = ["append_or_insert_into_unterminated_document", "move_all_occurrences_of_duplicated_name",
          "single_occurrence_moved_past_sibling", "sort_with_duplicates", "insert_into_empty_file",
          "insert_beyond_end", "unindexed_set_replaces_all_occurrences",
          "reorder_in_unterminated_document", "failing_op_leaves_document_unchanged", "gc_step",
          "handles_dropped_and_refetched", "step_without_observation",
          "file_object_dropped_paragraph_kept", "set_through_set_field_methods",
          "view_without_auto_resolve", "multi_line_value_through_set_field_from_raw_string",
          "key_object_taken_from_iteration", "same_call_repeated",
          "step_without_any_rendering", "assignment_under_an_invalid_field_name"]


def generate(seed, run, tier):
    return repro_sim.generate_case(stream_rng(seed, ID, run, "world"),
                                   stream_rng(seed, ID, run, "swarm"),
                                   stream_rng(seed, ID, run, "sched"), "C10", tier)


def describe(case):
    from props.repro_common import Doc
    return {"document": Doc.from_json(case["world"]["doc"]).text(),
            "duplicated_fields": case["world"]["dup"],
            "trace": case["trace"][:25], "trace_len": len(case["trace"])}


def execute(case):
    return repro_sim.execute_case(case, "C10")


shrink_candidates = repro_sim.shrink_candidates
