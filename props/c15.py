"""C15 -- Changelog parsing is total and strictness-consistent; output is a normal form.

No schedule dimension (one consumer, one stream).  What the simulator owns is the LINE STREAM
(seam S4: lines lost, duplicated, inserted from a class table, stream truncated; delivered as
str / bytes / list / lazy iterator / file object, with or without newlines) and the EDITING
HISTORY applied to the parsed (or an empty) Changelog.  Oracle = relations over the recorded
history: (1) lenient construction never raises; (2) strict parsing raises ChangelogParseError
iff the lenient parse of the same stream warned; (3) whenever str(c) succeeds, re-parsing it
gives the same blocks and the identical text.
"""
import copy
import io
import warnings

from simkit.core import EventLog, Outcome, Violation, stream_rng, stable_hash

ID = "C15"
LEVEL = "exploration"
TIERS = {"quick": {"runs": 150000, "wall": 150}, "thorough": {"runs": 1500000, "wall": 1500}}
HASHSEED_RUNS = {"quick": 300, "thorough": 3000}    # S7: identical event logs under other hash seeds
RULE = ("world = well-formed changelog from a small grammar (1..4 blocks); stream faults = "
        "<= 6 of drop / duplicate / insert-from-class-table (header-like, trailer-like with one "
        "space or without details, bare ' --', junk, vim:/Local variables: mode lines, "
        "old-format markers, comments, CVS keywords) / truncate; delivery = str, bytes, list "
        "with or without newlines, lazy iterator, file object; allow_empty_author on/off; then "
        "<= 10 editing calls (new_block, add_change, set package / version / distributions / "
        "urgency / author / date) with well-formed values; an evaluation is one run (lenient "
        "parse, strict parse, edits, format, re-parse, re-format); distinct = distinct "
        "(fault kinds, delivery, warnings, edit ops) hash; non-trivial = at least one stream "
        "fault or one edit was applied"
        '; later additions: block-level edits through c[i] and retained handles, str() in the middle of a history, None assigned to author / date, distributions separated by several blanks or tabs, several further header pairs under varying names, white space after the time zone, formatter metacharacters in junk and change lines; the lenient parse is done twice per run')
REAL = ["debian.changelog.Changelog / ChangeBlock (parse_changelog, _parse_error, _format, "
        "new_block, add_change, attribute setters)", "debian.debian_support.Version", "warnings"]
STUB = ["the line stream handed to the parser (simulator-owned list / iterator / file object)"]
ASSUMPTIONS = [
    "input is valid UTF-8 text; lines contain no line-break characters other than the "
    "terminating \\n (str input is split with str.splitlines by the parser)",
    "values used in editing calls are well formed (package name, valid version, distribution "
    "names, urgency word, 'Name <email>', RFC 2822 date, change lines starting with two "
    "blanks); the property makes no promise for free-form attribute values",
    "the process-global warnings state is neutralised: every parse runs under "
    "catch_warnings(record=True) + simplefilter('always')",
    "relation (3) is checked only when str(c) succeeds (ChangelogCreateError = 'cannot be "
    "formatted')",
]
PROBES = ["eof_inside_block", "trailer_without_details_allow_empty", "trailer_without_details_strict",
          "mode_line_before_first_heading", "duplicate_header", "edit_after_damaged_parse",
          "strict_raised", "format_refused", "new_block_on_empty_changelog", "bytes_delivery",
          "lazy_iterator_delivery", "one_space_trailer", "block_handles_retained",
          "formatted_mid_history", "edit_through_retained_block_handle"]

PKGS = ["hello", "lib-x1", "g++-12", "a.b"]
VERS = ["1.0-1", "2:1.2~rc1-3", "0.1", "1.0-1ubuntu1", "3.0+dfsg-2",
        "0:1.0-1", "1.00-1", "0.1-0"]      # the last three order-equal to earlier spellings
DISTS = ["unstable", "experimental", "stable testing", "bookworm-security", "UNRELEASED",
         "stable  testing", "a\tb"]        # separated by more than one blank
URG = ["low", "medium", "HIGH", "emergency", "low (HIGH for users of x)"]
AUTH = ["A B <a@b.org>", "Ünï Cöde <u@example.com>", "X <x@y>", "Mr. O'Neil, Jr. <o@n.ie>"]
DATES = ["Mon, 01 Jan 2024 10:00:00 +0000", "Tue, 2 Feb 2021 09:08:07 -0500",
         "Sat, 31 Dec 2022 23:59:59 +1300",
         "Wed, 03 Jan 2024 10:00:00 +0000 "]      # white space after the time zone
CHANGES = ["  * Fix a bug.", "  * New upstream release (closes: #123456, #7)", "    continuation",
           "  [ Someone ]", "  * lp: #99", "", "  * ünï", "  * 50% faster; %s, {0} and \\1 kept"]
INSERT = {
    "header": ["hello (1.0-1) unstable; urgency=low", "hello (1.0) unstable", "x (1) a; urgency",
               "PKG (2) a b c; urgency=low, x=y", "p (1.0) u; urgency=low (c), foo=bar, urgency=high",
               "p (1 0) u; urgency=low", "p (1.0) u; urgency=?"],
    "trailer": [" -- A B <a@b.org>  Mon, 01 Jan 2024 10:00:00 +0000",
                " -- A B <a@b.org> Mon, 01 Jan 2024 10:00:00 +0000", " --", " -- ", " --  ",
                " -- A <a@b.c>", " -- A <a@b.c>  garbage date", "-- A <a@b.c>  Mon, 01 Jan 2024 10:00:00 +0000",
                " -- <>  1 Jan 2024 1:00:00 +0000"],
    "change": ["  * change", "   more", "", "  ", "\t* tab", " one space", "  * 100% done, %s {0}"],
    # incl. text that means something to a formatter (%, {}, backslash group references)
    "junk": ["junk", "Hello World", "=====", "* not indented", "  ", "100% junk", "%s and %d",
             "{0} {} {x}", "back\\1slash \\g<0>", "%(name)s"],
    "mode": ["vim: set ft=changelog:", "Local variables:", ";; Local variables:", "VIM: x"],
    "old": ["Old Changelog:", "Changes for foo-bar:", "Changes from version 1 to 2:",
            "Mon Jan  1 10:00:00 2024  A B  <a@b.org>", "hello 1.0 Debian 1", "hello (0.9)", "1.0:"],
    "comment": ["# comment", "#nospace", "/* c comment */", "$Id: changelog 1 $", "$Log$"],
}
DELIVERY = ["str", "str", "bytes", "list", "list-nl", "iter", "file", "bytes-list"]


def gen_changelog(rng):
    lines = []
    for _ in range(rng.choice([1, 1, 2, 3, 4])):
        hdr = "%s (%s) %s; urgency=%s" % (rng.choice(PKGS), rng.choice(VERS), rng.choice(DISTS),
                                          rng.choice(URG))
        if rng.random() < 0.15:
            hdr += ", binary-only=yes"
        if rng.random() < 0.1:
            # several more header pairs, under varying names and in varying order
            names = rng.sample(["binary-only", "origin", "build", "target", "x-note", "x-id",
                                "zz", "k0", "k1", "k2", "k3", "k4", "k5", "k6", "k7"],
                               rng.randint(2, 4))
            hdr += "".join(", %s=v%d" % (n_, i_) for i_, n_ in enumerate(names))
        lines.append(hdr)
        lines.append("")
        for _ in range(rng.randint(1, 3)):
            lines.append(rng.choice(CHANGES[:5] + CHANGES[6:]))
        lines.append("")
        lines.append(" -- %s  %s" % (rng.choice(AUTH), rng.choice(DATES)))
        lines.append("")
    if rng.random() < 0.5:
        lines.pop()
    return lines


def generate(seed, run, tier):
    rw = stream_rng(seed, ID, run, "world")
    rs = stream_rng(seed, ID, run, "swarm")
    rf = stream_rng(seed, ID, run, "fault")
    rq = stream_rng(seed, ID, run, "sched")
    lines = gen_changelog(rw) if rs.random() < 0.92 else []
    faults = []
    kinds = ["drop", "dup", "insert", "insert", "truncate"]
    classes = [c for c in INSERT if rs.random() < 0.6] or ["junk"]
    for _ in range(rs.choice([0, 0, 1, 1, 2, 3, 6])):
        k = rf.choice(kinds)
        f = {"fault": k, "at": rf.randrange(0, max(len(lines), 1) + 1)}
        if k == "insert":
            f["line"] = rf.choice(INSERT[rf.choice(classes)])
        faults.append(f)
    edits = []
    for _ in range(rs.choice([0, 0, 1, 2, 4, 10] if tier == "quick" else [0, 1, 2, 4, 10, 20])):
        k = rq.choice(["new_block", "add_change", "add_change", "package", "version",
                       "distributions", "urgency", "author", "date", "block_set", "block_set",
                       "block_add_change", "hold", "held_set", "held_set", "str", "str"])
        e = {"op": k}
        if k in ("hold", "str"):
            # hold: a client keeps the block objects it was handed; str: the changelog is
            # formatted in the middle of the history (observation is part of the schedule)
            edits.append(e)
            continue
        if k == "held_set":
            attr = rq.choice(["package", "version", "distributions", "urgency", "author", "date"])
            e.update(i=rq.randrange(4), attr=attr,
                     val=rq.choice({"package": PKGS, "version": VERS, "distributions": DISTS,
                                    "urgency": URG[:4], "author": AUTH + [None], "date": DATES + [None]}[attr]))
            edits.append(e)
            continue
        if k == "block_set":
            attr = rq.choice(["package", "version", "distributions", "urgency", "author", "date"])
            e.update(i=rq.randrange(4), attr=attr,
                     val=rq.choice({"package": PKGS, "version": VERS, "distributions": DISTS,
                                    "urgency": URG[:4], "author": AUTH + [None], "date": DATES + [None]}[attr]))
            edits.append(e)
            continue
        if k == "block_add_change":
            e.update(i=rq.randrange(4), val=rq.choice(CHANGES))
            edits.append(e)
            continue
        if k == "new_block":
            full = rq.random() < 0.7
            e["args"] = {"package": rq.choice(PKGS), "version": rq.choice(VERS),
                         "distributions": rq.choice(DISTS), "urgency": rq.choice(URG[:4]),
                         "changes": [rq.choice(CHANGES[:5])], "author": rq.choice(AUTH),
                         "date": rq.choice(DATES)}
            if not full:
                for drop in rq.sample(sorted(e["args"]), rq.randint(1, 3)):
                    del e["args"][drop]
            if rq.random() < 0.2 and "urgency" in e["args"]:
                e["args"]["urgency_comment"] = " (HIGH for users of x)"
            if rq.random() < 0.2:
                e["args"]["other_pairs"] = {"binary-only": "yes"}
        elif k == "add_change":
            e["val"] = rq.choice(CHANGES)
        else:
            e["val"] = rq.choice({"package": PKGS, "version": VERS, "distributions": DISTS,
                                  "urgency": URG[:4], "author": AUTH + [None], "date": DATES + [None]}[k])
        edits.append(e)
    return {"world": {"lines": lines, "delivery": rs.choice(DELIVERY),
                      "allow_empty_author": rs.random() < 0.4, "none_input": False},
            "trace": faults, "edits": edits}


TRACE_KEYS = ("trace", "edits")


def describe(case):
    return {"lines": case["world"]["lines"], "delivery": case["world"]["delivery"],
            "allow_empty_author": case["world"]["allow_empty_author"],
            "stream_faults": case["trace"], "edits": case["edits"]}


def apply_faults(lines, faults):
    lines = list(lines)
    fired = []
    for f in faults:
        k = f["fault"]
        at = f.get("at", 0)
        if k == "insert":
            lines.insert(min(at, len(lines)), f["line"])
            fired.append("insert")
        elif not lines:
            continue
        elif k == "drop":
            del lines[at % len(lines)]
            fired.append("drop")
        elif k == "dup":
            i = at % len(lines)
            lines.insert(i, lines[i])
            fired.append("dup")
        elif k == "truncate":
            del lines[at % (len(lines) + 1):]
            fired.append("truncate")
    return lines, fired


def deliver(lines, how):
    if how == "str":
        return "\n".join(lines) + ("\n" if lines else "")
    if how == "bytes":
        return ("\n".join(lines) + ("\n" if lines else "")).encode("utf-8")
    if how == "list":
        return list(lines)
    if how == "list-nl":
        return [l + "\n" for l in lines]
    if how == "iter":
        return (l + "\n" for l in lines)
    if how == "file":
        return io.StringIO("".join(l + "\n" for l in lines))
    if how == "bytes-list":
        return [(l + "\n").encode("utf-8") for l in lines]
    raise ValueError(how)


def blocks_of(c):
    out = []
    for b in c:
        out.append({"package": b.package, "version": b._raw_version if hasattr(b, "_raw_version")
                    else str(b.version), "distributions": b.distributions, "urgency": b.urgency,
                    "changes": list(b.changes()), "author": b.author, "date": b.date})
    return out


def execute(case):
    from debian import changelog
    out = Outcome()
    log = EventLog()
    w = case["world"]
    lines, fired = apply_faults(w["lines"], case.get("trace", []))
    for k in fired:
        out.fault(k)
    how = w.get("delivery", "str")
    aea = bool(w.get("allow_empty_author"))
    if how.startswith("bytes"):
        out.probe("bytes_delivery")
    if how == "iter":
        out.probe("lazy_iterator_delivery")
    where = {"lines": lines, "delivery": how, "allow_empty_author": aea}
    # ---- (1) lenient parse never raises
    with warnings.catch_warnings(record=True) as rec:
        warnings.simplefilter("always")
        try:
            c = changelog.Changelog(deliver(lines, how), allow_empty_author=aea)
        except Exception as e:   # pylint: disable=broad-except
            where["error"] = repr(e)
            raise Violation("lenient-parse-raised", type(e).__name__, where)
    msgs = [str(r.message) for r in rec]
    nwarn = len(msgs)
    log.add("lenient", nwarn, [m[:40] for m in msgs], len(c))
    # ---- (2) strict raises iff lenient warned
    with warnings.catch_warnings(record=True) as rec2:
        warnings.simplefilter("always")
        try:
            changelog.Changelog(deliver(lines, how), allow_empty_author=aea, strict=True)
            strict_exc = None
        except changelog.ChangelogParseError as e:
            strict_exc = "ChangelogParseError"
        except Exception as e:   # pylint: disable=broad-except
            where["error"] = repr(e)
            raise Violation("strict-parse-raised-other-than-ChangelogParseError",
                            type(e).__name__, where)
    log.add("strict", strict_exc, len(rec2))
    if strict_exc:
        out.probe("strict_raised")
    if (strict_exc is not None) != (nwarn > 0) or (strict_exc is None and len(rec2) > 0):
        where.update(lenient_warnings=msgs, strict=strict_exc,
                     strict_warnings=[str(r.message) for r in rec2])
        raise Violation("strict-and-lenient-disagree", "parse", where)
    # ---- (2') a later client parsing the same stream in the same process sees the same
    # diagnostics (guards against process-global memoisation of warnings, seam S8)
    with warnings.catch_warnings(record=True) as rec3:
        warnings.simplefilter("always")
        try:
            changelog.Changelog(deliver(lines, how), allow_empty_author=aea)
        except Exception as e:   # pylint: disable=broad-except
            where["error"] = repr(e)
            raise Violation("lenient-parse-raised", type(e).__name__, where)
    msgs3 = [str(r.message) for r in rec3]
    if msgs3 != msgs:
        where.update(first_parse_warnings=msgs, second_parse_warnings=msgs3, strict=strict_exc)
        raise Violation("strict-and-lenient-disagree", "second-parse", where)
    # probes on what the stream looked like
    if any("Found eof" in m for m in msgs):
        out.probe("eof_inside_block")
    if any(l.rstrip() == " --" for l in lines):
        out.probe("trailer_without_details_allow_empty" if aea
                  else "trailer_without_details_strict")
    for l in lines:
        if l.startswith(" -- ") and "> " in l and ">  " not in l:
            out.probe("one_space_trailer")
            break
    first_real = next((l for l in lines if l.strip()), "")
    if first_real.lower().startswith(("vim:", "local variables", ";; local")):
        out.probe("mode_line_before_first_heading")
    hdrs = [l for l in lines if l and not l[0].isspace() and "(" in l and ";" in l]
    if len(set(hdrs)) < len(hdrs):
        out.probe("duplicate_header")
    # ---- edits
    applied = []
    held = []
    for e in case.get("edits", []):
        op = e["op"]
        try:
            if op == "hold":
                held = [c[i] for i in range(len(c))]
                out.probe("block_handles_retained")
            elif op == "str":
                try:
                    str(c)
                    out.probe("formatted_mid_history")
                except changelog.ChangelogCreateError:
                    pass
            elif op == "held_set":
                if not held:
                    continue
                setattr(held[e["i"] % len(held)], e["attr"], e["val"])
                out.probe("edit_through_retained_block_handle")
            elif op == "new_block":
                if len(c) == 0:
                    out.probe("new_block_on_empty_changelog")
                c.new_block(**e["args"])
            elif len(c) == 0:
                continue
            elif op == "block_set":
                setattr(c[e["i"] % len(c)], e["attr"], e["val"])
            elif op == "block_add_change":
                c[e["i"] % len(c)].add_change(e["val"])
            elif op == "add_change":
                c.add_change(e["val"])
            elif op == "version":
                c.version = e["val"]
            else:
                setattr(c, op, e["val"])
        except Exception as ex:   # pylint: disable=broad-except
            where.update(edit=e, error=repr(ex))
            raise Violation("editing-call-raised", op, where)
        applied.append(op)
        out.steps += 1
    if applied and nwarn:
        out.probe("edit_after_damaged_parse")
    # ---- (3) normal form
    try:
        s = str(c)
    except changelog.ChangelogCreateError:
        s = None
        out.probe("format_refused")
    except Exception as ex:   # pylint: disable=broad-except
        where.update(error=repr(ex), edits=case.get("edits"))
        raise Violation("formatting-raised-other-than-ChangelogCreateError",
                        type(ex).__name__, where)
    log.add("format", None if s is None else len(s), applied)
    if s is not None:
        with warnings.catch_warnings(record=True):
            warnings.simplefilter("always")
            try:
                c2 = changelog.Changelog(s, allow_empty_author=aea)
                s2 = str(c2)
            except Exception as ex:   # pylint: disable=broad-except
                where.update(error=repr(ex), formatted=s, edits=case.get("edits"))
                raise Violation("formatted-changelog-does-not-reparse-or-reformat",
                                type(ex).__name__, where)
        b1, b2 = blocks_of(c), blocks_of(c2)
        if b1 != b2:
            diff = next((i for i, (x, y) in enumerate(zip(b1, b2)) if x != y), min(len(b1), len(b2)))
            where.update(formatted=s, edits=case.get("edits"), first_differing_block=diff,
                         original=b1[diff] if diff < len(b1) else None,
                         reparsed=b2[diff] if diff < len(b2) else None,
                         blocks_original=len(b1), blocks_reparsed=len(b2))
            raise Violation("reparsed-blocks-differ", "normal-form", where)
        if s2 != s:
            where.update(formatted=s, reformatted=s2, edits=case.get("edits"))
            raise Violation("formatting-is-not-a-fixpoint", "normal-form", where)
    out.steps += 3
    key = [sorted(set(fired)), how, aea, sorted(set(m.split(":")[0][:30] for m in msgs)), applied,
           s is None]
    out.states.add(stable_hash(key + [len(c)]))
    out.interleaving = stable_hash(key)
    out.nontrivial = bool(fired or applied)
    out.digest = log.digest()
    return out


def shrink_candidates(case):
    w = case["world"]
    for i in range(len(w["lines"])):
        c = copy.deepcopy(case)
        del c["world"]["lines"][i]
        yield c
    if w["delivery"] != "list":
        c = copy.deepcopy(case)
        c["world"]["delivery"] = "list"
        yield c
    if w["allow_empty_author"]:
        c = copy.deepcopy(case)
        c["world"]["allow_empty_author"] = False
        yield c
    for i, e in enumerate(case.get("edits", [])):
        if e["op"] == "new_block":
            for k in sorted(e["args"]):
                c = copy.deepcopy(case)
                del c["edits"][i]["args"][k]
                yield c
