"""C14 -- Version objects accept exactly valid version strings and decompose losslessly;
a rejected assignment rolls back.

Simulated: 1..3 live Version handles receiving a seeded history of constructions,
component assignments (valid, invalid, None) and reads.  The 'fault' here is the rejected
operation (seam S9): every operation may be refused and must then leave every observable of
every handle exactly as it was.  Oracle: a hand-written validator / decomposer over the
Policy character sets (no regular expressions, nothing imported from debian.*).
"""
import copy

from simkit.core import EventLog, Outcome, Violation, stream_rng, stable_hash

ID = "C14"
LEVEL = "exploration"
TIERS = {"quick": {"runs": 150000, "wall": 120}, "thorough": {"runs": 3000000, "wall": 1500}}
HASHSEED_RUNS = {"quick": 300, "thorough": 3000}    # S7: identical event logs under other hash seeds
RULE = ("trace = seeded history (<= 20 steps) over 1..3 Version handles: construct from a "
        "string built from version-alphabet pieces and foreign characters (space, newline, "
        "'_', non-ASCII letters and digits), copy-construct, assign epoch / upstream_version / "
        "debian_revision / debian_version / full_version with valid parts, invalid parts, "
        "empty strings and None, read all attributes; an evaluation is one run; distinct = "
        "distinct (handle, op, argument-class) sequence hash; non-trivial = the history "
        "contains at least one accepted and one rejected operation"
        '; later additions: retried operations, look-alike letters, epochs of up to 4400 digits, quiet steps (nobody reads the objects until later), a churn of up to 20000 distinct versions inside one history')
REAL = ["debian.debian_support.Version / BaseVersion (construction, __setattr__, __getattr__, "
        "_update_full_version, __str__)"]
STUB = []
ASSUMPTIONS = [
    "values assigned are str or None (the documented domain); None for upstream_version is "
    "an invalid value and must be rejected like any other",
    "assigning the empty string to epoch or debian_revision may either be rejected or be "
    "treated as 'absent' (the documentation leaves it open); both outcomes are accepted",
    "comparison operators are not exercised here (C03, not applicable to this technique)",
]
PROBES = ["rejected_assignment_after_accepted_ones", "upstream_with_hyphen_rederives_revision",
          "epoch_added_to_upstream_containing_colon", "trailing_newline_string",
          "non_ascii_digit_epoch", "hyphen_without_valid_revision", "none_upstream",
          "rejected_construct", "rollback_checked_on_other_handles", "empty_string_optional_part",
          "operation_retried", "long_run_of_distinct_versions_in_one_process",
          "step_without_looking_at_the_objects"]

LETTERS = "abcdefghijklmnopqrstuvwxyzABCDEFGHIJKLMNOPQRSTUVWXYZ"
DIG = "0123456789"
UPSET = frozenset(LETTERS + DIG + ".+~-:")
REVSET = frozenset(LETTERS + DIG + "+.~")
ATTRS = ["epoch", "upstream_version", "debian_revision", "debian_version", "full_version"]


def decompose(s):
    """None if s is not a valid Debian version, else (epoch, upstream, revision)."""
    if not isinstance(s, str) or s == "":
        return None
    epoch, rest = None, s
    i = s.find(":")
    if i >= 0:
        head = s[:i]
        if head == "" or any(c not in DIG for c in head):
            return None
        epoch, rest = head, s[i + 1:]
    j = rest.rfind("-")
    if j >= 0:
        up, rev = rest[:j], rest[j + 1:]
    else:
        up, rev = rest, None
    if up == "" or any(c not in UPSET for c in up):
        return None
    if rev is not None and (rev == "" or any(c not in REVSET for c in rev)):
        return None
    return (epoch, up, rev)


def compose(epoch, up, rev):
    s = ""
    if epoch is not None:
        s += epoch + ":"
    s += up
    if rev is not None:
        s += "-" + rev
    return s


PIECES_OK = ["1", "0", "2", "10", "1.0", "2.3.4", "a", "rc1", "~", "~rc2", "+", "+b1", ".", "1.2+dfsg",
             "ubuntu1", "0ubuntu1", "Z", "9z"]
FOREIGN = [" ", "\n", "_", "é", "١", "１", "\t", "/", "²", "(", "\r",
           # letters that case-fold to ASCII letters, full-width forms, other look-alikes
           "\u212a", "\u017f", "\u0131", "\u0130", "ａ", "Ｚ", "\u00df", "\u2160", "\x0c", "\x00"]
LONG_EPOCHS = ["2147483647", "2147483648", "4294967296", "99999999999999999999",
               "0" * 30 + "7", "9" * 4400]


def _gen_part(rng, kind):
    """kind: 'up' | 'rev' | 'epoch' | 'full' ; returns str or None"""
    r = rng.random()
    if kind == "epoch":
        if r < 0.25:
            return None
        if r < 0.62:
            return rng.choice(["0", "1", "2", "10", "007"])
        if r < 0.65:
            return rng.choice(LONG_EPOCHS[:5] if rng.random() < 0.9 else LONG_EPOCHS)
        if r < 0.72:
            return ""
        return rng.choice(["a", "-1", "1 ", "١", "１", "1\n", "1:", ":", "1.0", "+1", " 1"])
    if kind == "rev":
        if r < 0.2:
            return None
        if r < 0.6:
            return "".join(rng.choice(PIECES_OK) for _ in range(rng.randint(1, 2)))
        if r < 0.67:
            return ""
        return rng.choice(["1-1", "a:b", "1 ", "\n", "1\n", "_", "é", "-", ":", "1_2", " "])
    if kind == "up":
        if r < 0.05:
            return None
        if r < 0.5:
            return "".join(rng.choice(PIECES_OK) for _ in range(rng.randint(1, 3)))
        if r < 0.65:
            return rng.choice(["1-2", "1.0-3", "a-b-c", "1:2", "2:3-4", "1-", "-1", "-", "1--2"])
        if r < 0.7:
            return ""
        return rng.choice(["1 0", "1.0\n", "\n1", "1_0", "é1", "1١", " ", "1/2", "(1)",
                           ":", "1:", ":1", "\t"])
    # full string
    if r < 0.45:
        e = rng.choice([None, None, "0", "1", "12"])
        if rng.random() < 0.04:
            e = rng.choice(LONG_EPOCHS[:5] if rng.random() < 0.9 else LONG_EPOCHS)
        u = "".join(rng.choice(PIECES_OK) for _ in range(rng.randint(1, 3)))
        if rng.random() < 0.2:
            u += "-" + rng.choice(PIECES_OK)
        if e is not None and rng.random() < 0.2:
            u += ":" + rng.choice(PIECES_OK)
        v = rng.choice([None, "1", "1", "0ubuntu1", "2~bpo+1", "a.b"])
        return compose(e, u, v)
    if r < 0.75:
        # random soup over the version alphabet (many are invalid in interesting ways)
        return "".join(rng.choice("0011aZ.+~--::") for _ in range(rng.randint(0, 6)))
    base = rng.choice(["1.0", "1:1.0-1", "2.0-3", "a", "0:1"])
    f = rng.choice(FOREIGN)
    pos = rng.choice([0, len(base), rng.randint(0, len(base))])
    if rng.random() < 0.3:
        return rng.choice(["١:1.0", "１:1", "1.0\n", "1.0-1\n", "\n", "1:\n", "1.0-",
                           "-1", "0:-1", "1:2-a:b", "1-:", ":", "1:", "a:1", "1.0 ", " 1.0"])
    return base[:pos] + f + base[pos:]


def generate(seed, run, tier):
    rs = stream_rng(seed, ID, run, "swarm")
    rq = stream_rng(seed, ID, run, "sched")
    nh = rs.choice([1, 1, 2, 3])
    nsteps = rs.choice([3, 6, 12, 20] if tier == "quick" else [3, 6, 12, 20, 40])
    w_new = rs.choice([1, 2, 4])
    w_set = rs.choice([2, 4, 8])
    w_read = rs.choice([0, 1])
    w_copy = rs.choice([0, 1])
    w_again = rs.choice([0, 1, 2])
    kinds = ["new"] * w_new + ["set"] * w_set + ["read"] * w_read + ["copy"] * w_copy + \
        ["again"] * w_again
    steps = [{"h": 0, "op": "new", "s": _gen_part(rq, "full")}]
    # reading an object is itself a call on it: how often the clients look at the objects
    # is part of the schedule (results and exceptions of the operations are always checked,
    # everything is read at the end)
    quiet_rate = rs.choice([0.0, 0.0, 0.5, 1.0])
    for _ in range(nsteps):
        k = rq.choice(kinds)
        st = {"h": rq.randrange(nh), "op": k}
        if rq.random() < quiet_rate:
            st["quiet"] = True
        if k == "again":
            # the previous construction / assignment is issued once more (a retry), on the
            # same or on another handle
            prev = steps[-1]
            if prev["op"] in ("new", "set"):
                st = dict(prev)
                if rq.random() < 0.5:
                    st["h"] = rq.randrange(nh)
                st["retry"] = True
                steps.append(st)
            continue
        if k == "new":
            st["s"] = _gen_part(rq, "full")
        elif k == "copy":
            st["from"] = rq.randrange(nh)
        elif k == "set":
            a = rq.choice(ATTRS)
            st["attr"] = a
            st["val"] = _gen_part(rq, {"epoch": "epoch", "upstream_version": "up",
                                       "debian_revision": "rev", "debian_version": "rev",
                                       "full_version": "full"}[a])
        steps.append(st)
    if rs.random() < (0.0008 if tier == "quick" else 0.003):
        # other clients of the same process: a long run of distinct, valid versions
        # (construction and epoch assignment) somewhere inside this history
        steps.insert(rq.randrange(1, len(steps) + 1),
                     {"h": rq.randrange(nh), "op": "churn", "n": rs.choice([300, 9000, 20000]),
                      "base": rq.choice([0, 7, 100000])})
    return {"world": {"handles": nh}, "trace": steps}


def describe(case):
    return {"handles": case["world"]["handles"], "trace": case["trace"]}


def _obs(v):
    return [str(v), v.full_version, v.epoch, v.upstream_version, v.debian_revision,
            v.debian_version]


def _want(m):
    s = compose(*m)
    return [s, s, m[0], m[1], m[2], m[2]]


def _argclass(x):
    if x is None:
        return "none"
    if x == "":
        return "empty"
    if decompose(x) is not None:
        return "valid-version"
    if all(c in UPSET for c in x):
        return "alphabet"
    return "foreign"


def execute(case):
    from debian.debian_support import Version
    out = Outcome()
    log = EventLog()
    nh = max(1, case["world"]["handles"])
    sut = [None] * nh
    model = [None] * nh
    inter = []
    accepted = rejected = 0

    def check_all(si, op):
        for k in range(nh):
            if sut[k] is None:
                continue
            try:
                got = _obs(sut[k])
            except Exception as e:   # pylint: disable=broad-except
                raise Violation("observation-raised", op, {"step": si, "handle": k,
                                                          "error": repr(e)})
            if got != _want(model[k]):
                raise Violation("observables-differ-from-decomposition", op,
                                {"step": si, "handle": k, "got": got, "want": _want(model[k]),
                                 "order": "str, full_version, epoch, upstream, revision, "
                                          "debian_version"})

    for si, st in enumerate(case["trace"]):
        k = st["h"] % nh
        op = st["op"]
        if st.get("retry"):
            out.probe("operation_retried")
        if op == "new" or op == "copy":
            if op == "copy":
                src = st["from"] % nh
                if sut[src] is None:
                    continue
                arg = sut[src]
                s = compose(*model[src])
            else:
                arg = s = st["s"]
                if not isinstance(s, str):
                    continue
            want = decompose(s)
            try:
                v = Version(arg)
                res = "ok"
            except ValueError:
                v = None
                res = "ValueError"
            except Exception as e:   # pylint: disable=broad-except
                raise Violation("construct-raised-other-than-ValueError", op,
                                {"step": si, "string": s, "error": repr(e)})
            log.add(si, k, op, s, res)
            inter.append((k, op, _argclass(s)))
            if "\n" in s:
                out.probe("trailing_newline_string")
            if any(c.isdigit() and c not in DIG for c in s.split(":")[0]) and ":" in s:
                out.probe("non_ascii_digit_epoch")
            if want is None and all(c in UPSET for c in s) and s:
                out.probe("hyphen_without_valid_revision")
            if want is None:
                out.probe("rejected_construct")
                rejected += 1
                if res == "ok":
                    raise Violation("invalid-version-string-accepted", "construct",
                                    {"step": si, "string": s, "observed": _obs(v)})
            else:
                accepted += 1
                if res != "ok":
                    raise Violation("valid-version-string-rejected", "construct",
                                    {"step": si, "string": s})
                sut[k] = v
                model[k] = want
        elif op == "churn":
            out.probe("long_run_of_distinct_versions_in_one_process")
            for i in range(st["base"], st["base"] + st["n"]):
                s = "%d:%d.%d-%d" % (i, i % 7, i, i % 3)
                want = (str(i), "%d.%d" % (i % 7, i), str(i % 3))
                try:
                    if sut[k] is not None and i % 2:
                        sut[k].epoch = str(i)
                        model[k] = (str(i), model[k][1], model[k][2])
                        got, wanted = _obs(sut[k]), _want(model[k])
                    else:
                        got, wanted = _obs(Version(s)), _want(want)
                except Exception as e:   # pylint: disable=broad-except
                    raise Violation("valid-version-string-rejected", "churn",
                                    {"step": si, "string": s, "index": i, "error": repr(e),
                                     "handle_observed": None if sut[k] is None else
                                     _obs(sut[k]), "handle_model": model[k]})
                if got != wanted:
                    raise Violation("observables-differ-from-decomposition", "churn",
                                    {"step": si, "string": s, "got": got, "want": wanted})
            log.add(si, k, "churn", st["n"], st["base"])
            inter.append((k, "churn", st["n"]))
            accepted += 1
        elif op == "set":
            if sut[k] is None:
                continue
            attr, val = st["attr"], st["val"]
            e, u, r = model[k]
            alts = []     # acceptable recomposed strings (None = must be rejected)
            if attr == "full_version":
                if not isinstance(val, str):
                    continue
                alts = [val]
            elif attr == "epoch":
                alts = [compose(val, u, r)] if val != "" else [None, compose(None, u, r)]
                if val is not None and ":" in u and e is None:
                    pass
                if val is not None and e is None and ":" in (u or ""):
                    out.probe("epoch_added_to_upstream_containing_colon")
            elif attr == "upstream_version":
                if val is None:
                    alts = [None]
                    out.probe("none_upstream")
                else:
                    alts = [compose(e, val, r)]
                    if "-" in val and r is None:
                        out.probe("upstream_with_hyphen_rederives_revision")
            else:
                alts = [compose(e, u, val)] if val != "" else [None, compose(e, u, None)]
            if val == "" and attr in ("epoch", "debian_revision", "debian_version"):
                out.probe("empty_string_optional_part")
            wants = [None if a is None else decompose(a) for a in alts]
            quiet = bool(st.get("quiet")) and len(wants) == 1
            before = None if quiet else [None if x is None else _obs(x) for x in sut]
            try:
                setattr(sut[k], attr, val)
                res = "ok"
            except ValueError:
                res = "ValueError"
            except Exception as ex:   # pylint: disable=broad-except
                res = type(ex).__name__
            log.add(si, k, "set", attr, val, res)
            inter.append((k, "set:" + attr, _argclass(val)))
            if res == "ok" and quiet:
                accepted += 1
                if wants[0] is None:
                    raise Violation("invalid-assignment-accepted", "set:" + attr,
                                    {"step": si, "value": val, "model_before": [e, u, r],
                                     "got": _obs(sut[k]), "acceptable": [None]})
                model[k] = wants[0]
            elif res == "ok":
                accepted += 1
                try:
                    got = _obs(sut[k])
                except Exception as ex:   # pylint: disable=broad-except
                    raise Violation("observation-raised", "set:" + attr,
                                    {"step": si, "error": repr(ex)})
                ok = [w for w in wants if w is not None and _want(w) == got]
                if not ok:
                    raise Violation(
                        "accepted-assignment-result-wrong" if any(w is not None for w in wants)
                        else "invalid-assignment-accepted", "set:" + attr,
                        {"step": si, "value": val, "model_before": [e, u, r], "got": got,
                         "acceptable": [None if w is None else _want(w) for w in wants]})
                model[k] = ok[0]
            else:
                rejected += 1
                if accepted:
                    out.probe("rejected_assignment_after_accepted_ones")
                if nh > 1:
                    out.probe("rollback_checked_on_other_handles")
                if res != "ValueError":
                    raise Violation("assignment-raised-other-than-ValueError", "set:" + attr,
                                    {"step": si, "value": val, "error": res,
                                     "model_before": [e, u, r]})
                if all(w is not None for w in wants):
                    raise Violation("valid-assignment-rejected", "set:" + attr,
                                    {"step": si, "value": val, "model_before": [e, u, r],
                                     "would_be": alts})
                after = None if quiet else [None if x is None else _obs(x) for x in sut]
                if after != before:
                    raise Violation("rejected-assignment-changed-the-object", "set:" + attr,
                                    {"step": si, "value": val, "before": before, "after": after})
        elif op == "read":
            if sut[k] is None:
                continue
            inter.append((k, "read", ""))
        else:
            continue
        out.steps += 1
        if st.get("quiet") and op != "churn":
            out.probe("step_without_looking_at_the_objects")
        else:
            check_all(si, op if op != "set" else "set:" + st["attr"])
        out.states.add(stable_hash(model))
    check_all(len(case["trace"]), "end")
    out.digest = log.digest()
    out.interleaving = stable_hash(inter)
    out.nontrivial = accepted > 0 and rejected > 0
    return out


def shrink_candidates(case):
    if case["world"]["handles"] > 1:
        c = copy.deepcopy(case)
        c["world"]["handles"] -= 1
        yield c
    for i, st in enumerate(case["trace"]):
        if st.get("op") == "churn" and st["n"] > 1:
            for nn in (st["n"] // 2, st["n"] - 1):
                c = copy.deepcopy(case)
                c["trace"][i]["n"] = nn
                yield c
        for key in ("s", "val"):
            v = st.get(key)
            if isinstance(v, str) and len(v) > 1:
                for nv in (v[:len(v) // 2], v[len(v) // 2:], v[:-1], v[1:]):
                    c = copy.deepcopy(case)
                    c["trace"][i][key] = nv
                    yield c
