"""Shared pieces for the format-preserving-parser simulations (C05, C10, C11):
document generator that keeps its segments, an independent mini-parser for one field, the
dict-interface read normalisation, and the document-order model."""
import copy
import re

NAMES = ["Package", "Source", "Depends", "Description", "X-Foo", "Section", "Arch", "Uploaders"]
WORDS = ["foo", "bar", "1.0-1", "libc6 (>= 2.3)", "a b  c", "any", "x#y", "ünï", "${misc:Depends}",
         "http://x.org/", ".", "a,b", "-q", "k=v", "100% %s {0} \\1",
         # characters str.splitlines() would break at, but which are ordinary here
         "form\x0cfeed", "nel\x85x", "ls\u2028x", "fs\x1cgs\x1dx"]


def nl_lines(text, keepends=True):
    """Split on "\n" ONLY (str.splitlines also breaks at \x0b \x0c \x1c-\x1e \x85 U+2028
    U+2029, which are ordinary characters of a deb822 line)."""
    parts = text.split("\n")
    out = [p + "\n" if keepends else p for p in parts[:-1]]
    if parts[-1] != "":
        out.append(parts[-1])
    return out


def variants(name):
    return [name, name.lower(), name.upper()]


# --------------------------------------------------------------------------- values

def gen_body(rng, name, style=None, terminated=True):
    """Text of a field from its name to the end of its last line."""
    style = style or rng.choice(["single", "single", "single", "multi", "multi", "empty-first"])
    if style == "single":
        v = rng.choice(WORDS)
        pre = rng.choice([" ", " ", "", "  ", "\t", " \t "])
        post = rng.choice(["", "", "", " ", "\t", "  "])
        if rng.random() < 0.05:
            v, post = "", ""
        body = "%s:%s%s%s\n" % (name, pre, v, post)
    else:
        if style == "empty-first":
            first = rng.choice(["", " ", "\t"])
        else:
            first = rng.choice([" ", "", "  "]) + rng.choice(WORDS) + rng.choice(["", " ", ","])
        lines = ["%s:%s\n" % (name, first)]
        n = rng.randint(1, 3)
        for i in range(n):
            if rng.random() < 0.25:
                lines.append("#%s\n" % rng.choice([" inline comment", "", "x", " c, d"]))
            cont = rng.choice([" ", " ", "\t", "  ", " \t"])
            lines.append("%s%s%s\n" % (cont, rng.choice(WORDS), rng.choice(["", "", " ", ","])))
        body = "".join(lines)
    if not terminated:
        body = body[:-1]
    return body


def norm_value(after_colon):
    """What the dict interface is documented to return for the text after 'Name:'
    (comments dropped, first line stripped, final newline hidden)."""
    lines = [l for l in nl_lines(after_colon) if not l.startswith("#")]
    if not lines:
        return ""
    if len(lines) == 1:
        return lines[0].strip()
    s = lines[0].strip() + "\n" + "".join(lines[1:])
    return s[:-1] if s.endswith("\n") else s


def norm_assigned(value):
    """The value a read must give back after `p[k] = value` (default view)."""
    if "\n" not in value:
        return value.strip()
    first, rest = value.split("\n", 1)
    if rest == "":
        return first.strip()
    return norm_value(" " + first.strip() + "\n" + (rest if rest.endswith("\n") else rest + "\n"))


def assignable(value):
    """Would the default dict interface accept this value?  (None = unspecified)"""
    if "\n" not in value:
        return True
    first, rest = value.split("\n", 1)
    if rest == "":
        return True
    lines = rest.split("\n")
    if lines and lines[-1] == "":
        lines = lines[:-1]
    for l in lines:
        if l == "" or l.strip() == "":
            return False
        if l[0] not in " \t#":
            return False
    real = [l for l in lines if not l.startswith("#")]
    if lines[-1].startswith("#"):
        return False
    if not real:
        return False
    return True


FIELD_RE = re.compile(r"^([!-9;-~][!-9;-~]*):")   # deliberately loose, checked again below


def mini_parse_field(text):
    """Independent check that *text* is exactly one deb822 field on lines of its own.
    Returns (name, after_colon) or None."""
    if text == "":
        return None
    lines = nl_lines(text)
    for i, l in enumerate(lines):
        if not l.endswith("\n") and i != len(lines) - 1:
            return None
    first = lines[0]
    if first[0] in " \t#-\n":
        return None
    c = first.find(":")
    if c <= 0:
        return None
    name = first[:c]
    if any(ch in name for ch in " \t\n") or any(ord(ch) < 0x21 or ord(ch) > 0x7e for ch in name):
        return None
    for l in lines[1:]:
        if l.strip() == "":
            return None
        if l[0] not in " \t#":
            return None
    if len(lines) > 1 and lines[-1].startswith("#"):
        return None
    return name, text[c + 1:]


# --------------------------------------------------------------------------- model

class Seg(object):
    __slots__ = ("comment", "body", "pending")

    def __init__(self, comment, body, pending=False):
        self.comment = comment      # zero or more '#...\n' lines directly above the field
        self.body = body            # 'Name:...' up to the end of its last line
        # pending: assigned while nobody was looking at the document - name and value are
        # known, the exact text is adopted (and validated) at the next observation
        self.pending = pending

    @property
    def name(self):
        return self.body[:self.body.index(":")]

    @property
    def after_colon(self):
        return self.body[self.body.index(":") + 1:]

    @property
    def value(self):
        return norm_value(self.after_colon)

    @property
    def text(self):
        return self.comment + self.body

    def as_list(self):
        return [self.comment, self.body]


class Doc(object):
    """leading + para0 + sep0 + para1 + ... + trailing; paragraphs are lists of Seg."""

    def __init__(self, leading="", paras=None, seps=None, trailing=""):
        self.leading = leading
        self.paras = paras or []
        self.seps = seps or []
        self.trailing = trailing

    def copy(self):
        return copy.deepcopy(self)

    def text(self):
        out = [self.leading]
        for i, p in enumerate(self.paras):
            out.extend(s.text for s in p)
            out.append(self.seps[i] if i < len(self.paras) - 1 else "")
        out.append(self.trailing)
        return "".join(out)

    def to_json(self):
        return {"leading": self.leading, "paras": [[s.as_list() for s in p] for p in self.paras],
                "seps": self.seps, "trailing": self.trailing}

    @classmethod
    def from_json(cls, j):
        return cls(j["leading"], [[Seg(c, b) for c, b in p] for p in j["paras"]],
                   list(j["seps"]), j["trailing"])

    def terminate_all_but_last(self):
        """The licensed change: any field that is followed by something ends in a newline."""
        segs = [s for p in self.paras for s in p]
        for s in segs[:-1]:
            if not s.body.endswith("\n"):
                s.body += "\n"
        if segs and not segs[-1].body.endswith("\n") and self.trailing:
            segs[-1].body += "\n"
        # a paragraph that is not the last non-empty one is followed by its separator
        return self

    def summary(self):
        return [[(s.name, s.value) for s in p] for p in self.paras if p]


def gen_doc(rng, dup=False, max_paras=4, max_fields=6):
    npar = rng.choice([1, 1, 2, 2, 3, max_paras])
    paras = []
    for _ in range(npar):
        nf = rng.randint(1, max_fields)
        names = list(NAMES)
        rng.shuffle(names)
        chosen = names[:nf]
        if dup and nf >= 2:
            for _ in range(rng.randint(1, 2)):
                chosen[rng.randrange(nf)] = chosen[rng.randrange(nf)]
        segs = []
        for n in chosen:
            spelled = rng.choice(variants(n)) if rng.random() < 0.2 else n
            if not dup:
                pass
            comment = ""
            if rng.random() < 0.25:
                comment = "".join("#%s\n" % rng.choice([" field comment", "", " two", "##",
                                                         " form\x0cfeed", " nel\x85x\u2028y"])
                                  for _ in range(rng.randint(1, 2)))
            segs.append(Seg(comment, gen_body(rng, spelled)))
        paras.append(segs)
    if npar >= 2 and rng.random() < 0.15:
        # two paragraphs with identical fields and values (objects that compare equal)
        src = paras[rng.randrange(npar - 1)]
        paras[rng.choice([npar - 1, npar - 1, rng.randrange(npar)])] = \
            [Seg(s.comment, s.body) for s in src]
    seps = [rng.choice(["\n", "\n", "\n\n", " \n", "\t\n", "\n# free comment\n\n",
                        "\n#a\n#b\n \n"]) for _ in range(npar - 1)]
    leading = rng.choice(["", "", "", "\n", "# top comment\n\n", "\n\n"])
    trailing = rng.choice(["", "", "", "\n", "\n\n", "\n# end comment\n", "# tail\n",
                           # last line blank-only or a comment, and not newline terminated
                           "  ", "\n# end", "# tail"])
    doc = Doc(leading, paras, seps, trailing)
    if trailing == "" and rng.random() < 0.45:
        last = paras[-1][-1]
        last.body = last.body[:-1]          # document without final newline
    return doc


# --------------------------------------------------------------------------- SUT helpers

def parse(text, dup=False):
    from debian._deb822_repro import parse_deb822_file
    return parse_deb822_file(nl_lines(text), accept_files_with_duplicated_fields=dup)


def sut_summary(text, dup=True):
    """Fresh parse with the SUT: [[(name, value)...] per non-empty paragraph]."""
    if text and not text.endswith("\n") and nl_lines(text, False)[-1].strip() == "":
        # a blank-only unterminated last line carries no content; terminating it keeps this
        # comparison clear of the parser's own trouble with that shape (C01, not claimed)
        text += "\n"
    f = parse(text, dup=dup)
    out = []
    for p in f:
        fields = []
        for kv in p.iter_parts():
            name = str(kv.field_name)
            fields.append((name, norm_value(kv.value_element.convert_to_text())))
        if fields:
            out.append(fields)
    return out
