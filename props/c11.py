"""C11 -- list views of a field read the exact values and write back only what changed.

Simulated: every open list view is a transaction (open, edit..., commit or abort); views on
DIFFERENT fields of one paragraph are interleaved by the seeded scheduler and committed in any
order; a view opened and closed untouched is a frequent actor.  Oracle: an independent
splitter (drop comment lines, join, split on the separator, strip, drop empties) for reads; a
per-view list model for edits; after a commit the field must re-read as the model list, every
other byte of the document must be unchanged, an untouched commit must change nothing at all,
and the document must still be valid.
"""
import copy
import gc

from simkit.core import EventLog, Outcome, Violation, stream_rng, stable_hash
from props.repro_common import Doc, Seg, gen_body, mini_parse_field, parse, norm_value, nl_lines

ID = "C11"
LEVEL = "exploration"
TIERS = {"quick": {"runs": 60000, "wall": 150}, "thorough": {"runs": 800000, "wall": 1500}}
HASHSEED_RUNS = {"quick": 300, "thorough": 3000}    # S7: identical event logs under other hash seeds
RULE = ("world = seeded paragraph(s) with 2..5 fields, 1..3 of them list fields produced by a "
        "layout grammar (values, separators = blanks/tabs/newlines or commas with arbitrary "
        "surrounding blanks, leading/trailing/double separators, space or tab continuation "
        "lines, comment lines anywhere after the first line, with or without final newline); "
        "trace = seeded interleaving (<= 30 steps) of open / append / remove / replace / "
        "reference-set / reference-remove / commit / abort over views on different fields, "
        "incl. edits that must be refused; an evaluation is one run; distinct = distinct "
        "(view, op) sequence hash; non-trivial = at least one changed view was committed"
        '; later additions: two clients on the same field, views entered again after commit or abort, held and mid-session references across sessions, suspended reference iterators, another client adding / moving fields, same-named list fields in a second paragraph (some byte-identical), scripted two-session scenarios')
REAL = ["debian._deb822_repro.parsing (ListInterpretation, Deb822ParsedTokenList, "
        "ValueReference, _update_field), tokens.py (whitespace_split_tokenizer, "
        "comma_split_tokenizer), _util.py (len_check_iterator, BufferingIterator)"]
STUB = []
ASSUMPTIONS = [
    "when two clients hold a view of the same field, each commit of a CHANGED view writes that "
    "view's list (the last changed commit wins) and an untouched commit writes nothing - the "
    "statement's 'the field re-parses to exactly the edited list' applied to the committing "
    "view; removing the last remaining value is excluded (an empty field is not "
    "representable)",
    "values are non-empty, contain no newline, no comma (comma lists) and no blank "
    "(white-space lists); anything else must be refused with ValueError and change nothing",
    "held ValueReferences are only used while their value is still in the list and the view "
    "is alive (documented validity rules)",
]
PROBES = ["same_named_list_field_in_second_paragraph", "references_made_mid_session_kept",
          "view_entered_again_after_abort_with_edits_pending", "remove_first_value", "remove_last_value", "remove_middle_value",
          "remove_next_to_comment_line", "comma_before_comment_line", "tab_continuation",
          "append_after_trailing_separator", "two_views_committed_in_reverse_open_order",
          "untouched_commit", "abort_discards_changes", "refused_edit", "held_reference_used",
          "first_value_starts_with_hash", "commit_on_unterminated_last_field", "gc_step",
          "long_lived_dict_view", "reference_iterator_opened",
          "streaming_removal_through_iterator", "later_value_removed_while_iterator_suspended",
          "field_added_while_view_open", "field_moved_while_view_open",
          "two_views_of_the_same_field", "append_on_a_new_line",
          "committed_view_entered_again", "stale_reference_refused", "same_text_assigned_again"]

WSV = ["amd64", "i386", "any", "linux-any", "x", "a1", "#h", "!hurd", "[x]", "ü", "%s", "{0}"]
ODD_BLANKS = ["\x0c", "\x85", "\u2028", "\x1c"]      # white space, but not line ends
CMV = ["libc6", "foo (>= 1.0)", "x y", "bb", "a | b", "#h", "${misc:Depends}", "q", "a b", "100% {0} \\1",
       "p\x0cq", "nel\x85x"]
LISTNAMES = ["Depends", "Arch", "Uploaders"]
OTHER = ["Package", "Section", "X-Foo", "Description"]


def split_list(after_colon, kind):
    lines = nl_lines(after_colon)
    keep = lines[:1] + [l for l in lines[1:] if not l.startswith("#")]
    text = "".join(keep)
    if kind == "ws":
        return text.split()
    return [x.strip() for x in text.split(",") if x.strip()]


def gen_list_body(rng, name, kind, terminated=True):
    vals = [rng.choice(WSV if kind == "ws" else CMV) for _ in range(rng.randint(1, 6))]
    out = name + ":" + rng.choice(["", " ", " ", "  ", "\t"])
    if rng.random() < 0.12:
        # nothing but blanks after the colon: the list starts on the next line
        out = name + ":" + rng.choice(["", " ", "\t", "  "]) + "\n" + rng.choice([" ", "\t", "  "])
    line_has_value = False
    first_line = True
    if kind == "comma" and rng.random() < 0.15:
        out += rng.choice([",", ", ", " ,"])
        line_has_value = True
    for i, v in enumerate(vals):
        if first_line and v.startswith("#") and out.endswith(":"):
            pass
        out += v
        line_has_value = True
        last = i == len(vals) - 1
        if kind == "ws":
            sep = rng.choice([" ", " ", "  ", "\t", "NL", "NL"] + ODD_BLANKS[:1 + (i % 4)]
                             if rng.random() < 0.08 else [" ", " ", "  ", "\t", "NL", "NL"]) \
                if not last else rng.choice(["", "", " ", "\t"])
        else:
            if not last:
                sep = rng.choice([", ", ",", " , ", ",  ", ",NL", ", NL", "NL,", ",,", " ,\t"])
            else:
                sep = rng.choice(["", "", ",", " ,", ", ", " "])
        while "NL" in sep:
            pre, post = sep.split("NL", 1)
            out += pre + "\n"
            first_line = False
            if rng.random() < 0.3:
                out += rng.choice(["# comment\n", "#\n", "# a, b\n", "#x y\n"])
            out += rng.choice([" ", " ", "\t", "  "])
            sep = post
            line_has_value = False
            if sep.strip() == "" and not last:
                pass
        out += sep
        if sep.strip():
            line_has_value = True
    # a line that ended up blank would end the paragraph: make sure it has content
    lines = out.split("\n")
    fixed = []
    for j, l in enumerate(lines):
        if j > 0 and not l.startswith("#") and l.strip() == "":
            l = l[:1] + (rng.choice(WSV) if kind == "ws" else rng.choice(CMV))
        fixed.append(l)
    out = "\n".join(fixed)
    out = out.rstrip("\n")
    if out.split("\n")[-1].startswith("#"):
        out += "\n " + rng.choice(WSV if kind == "ws" else CMV)
    return out + ("\n" if terminated else "")


def generate(seed, run, tier):
    rw = stream_rng(seed, ID, run, "world")
    rs = stream_rng(seed, ID, run, "swarm")
    rq = stream_rng(seed, ID, run, "sched")
    nlist = rs.choice([1, 2, 2, 3])
    nother = rs.randint(1, 2)
    fields = []
    kinds = {}
    for n in LISTNAMES[:nlist]:
        kinds[n] = rs.choice(["ws", "comma"])
        fields.append(("list", n))
    others = list(OTHER)
    rw.shuffle(others)
    for n in others[:nother]:
        fields.append(("other", n))
    rw.shuffle(fields)
    segs = []
    for kind, n in fields:
        comment = "# about %s\n" % n if rw.random() < 0.2 else ""
        body = gen_list_body(rw, n, kinds[n]) if kind == "list" else gen_body(rw, n)
        segs.append(Seg(comment, body))
    paras = [segs]
    seps = []
    twins = []
    if rs.random() < 0.4:
        second = [Seg("", gen_body(rw, "Package"))]
        if rs.random() < 0.6:
            # the second paragraph has list fields of the same names - some of them byte for
            # byte the same text as in the first
            for s_ in segs:
                if s_.name in LISTNAMES[:nlist] and rw.random() < 0.7:
                    second.append(Seg("", s_.body if rw.random() < 0.6 else
                                      gen_list_body(rw, s_.name, kinds[s_.name])))
                    twins.append(s_.name)
        else:
            second.append(Seg("", gen_body(rw, "Arch")))
        paras.append(second)
        seps.append(rw.choice(["\n", "\n# free\n\n"]))
    trailing = rw.choice(["", "", "\n"])
    doc = Doc(rw.choice(["", "", "# top\n\n"]), paras, seps, trailing)
    if trailing == "" and rs.random() < 0.4:
        last = paras[-1][-1]
        last.body = last.body[:-1]
    # schedule
    w = {"open": rs.choice([2, 3]), "append": rs.choice([1, 2, 4]), "remove": rs.choice([1, 2, 4]),
         "replace": rs.choice([0, 1, 2]), "ref_set": rs.choice([0, 1, 2]),
         "ref_remove": rs.choice([0, 1, 2]), "commit": rs.choice([2, 3]),
         "abort": rs.choice([0, 0, 1]), "bad": rs.choice([0, 1]), "gc": rs.choice([0, 1])}
    w.update({"reopen": rs.choice([0, 0, 1, 2]), "stale_ref": rs.choice([0, 0, 1]),
              "append_nl": rs.choice([0, 1, 2]),
              "it_open": rs.choice([0, 1, 2]), "it_next": rs.choice([0, 2, 4]),
              "add_field": rs.choice([0, 0, 1]), "move_field": rs.choice([0, 0, 1])})
    kindsl = [k for k, v in w.items() for _ in range(v)]
    steps = []
    listnames = LISTNAMES[:nlist]
    nadd = 0
    # two clients may hold a view of the SAME field; each commit of a changed view writes
    # that view's list (the last changed commit wins, an untouched commit writes nothing)
    same_field = rs.random() < 0.25
    for _ in range(rs.choice([3, 6, 12, 30] if tier == "quick" else [3, 6, 12, 30, 60])):
        k = rq.choice(kindsl)
        f = rq.choice(listnames)
        st = {"op": k, "field": f}
        if f in twins and rq.random() < 0.4:
            st["pi"] = 1          # the field of that name in the second paragraph
        if same_field and rq.random() < 0.35:
            st["vi"] = 1          # the second client's view of the same field
        if k == "stale_ref":
            st["val"] = rq.choice(WSV if kinds[f] == "ws" else CMV)
        if k == "it_next":
            st["act"] = rq.choice(["none", "none", "set", "remove"])
            st["val"] = rq.choice(WSV if kinds[f] == "ws" else CMV)
        if k == "add_field":
            nadd += 1
            st["name"] = "New-%d" % nadd
            st["val"] = rq.choice(["v", "two words", "x\n y"])
        if k == "move_field":
            st["how"] = rq.choice(["order_last", "order_first"])
            st["target"] = rq.choice(listnames + OTHER)
        pool = WSV if kinds[f] == "ws" else CMV
        if k == "open":
            st["interp"] = kinds[f]
        elif k in ("append", "replace", "ref_set"):
            st["val"] = rq.choice(pool)
        if k in ("remove", "replace", "ref_set", "ref_remove"):
            st["which"] = rq.choice([0, 0, 1, 2, -1, -1, 3])
        if k in ("ref_set", "ref_remove"):
            st["held"] = rq.random() < 0.3
            st["keep"] = rq.random() < 0.5     # references made now are the ones kept
        if k == "bad":
            st["val"] = rq.choice(["", "a b" if kinds[f] == "ws" else "a,b", " x", "x ",
                                   "a\nb"] + ([v_ for v_ in CMV if " " in v_] if kinds[f] == "ws"
                                              else ["x,y"]))
            st["how"] = rq.choice(["append", "replace", "ref_set"])
            st["which"] = rq.choice([0, -1])
        steps.append(st)
    if same_field and rs.random() < 0.3:
        # two sessions of one view object around another writer of the same field
        f = rq.choice(listnames)
        pool = WSV if kinds[f] == "ws" else CMV
        first = rq.choice([{"op": "ref_set", "field": f, "which": rq.choice([0, -1]),
                            "val": rq.choice(pool), "held": False},
                           {"op": "ref_remove", "field": f, "which": rq.choice([0, -1]),
                            "held": False},
                           {"op": "append", "field": f, "val": rq.choice(pool)}])
        second = rq.choice([{"op": "ref_set", "field": f, "which": rq.choice([0, -1]),
                             "same": True, "val": "", "held": False},
                            {"op": "stale_ref", "field": f, "val": rq.choice(pool)},
                            {"op": "replace", "field": f, "which": 0, "same": True, "val": ""},
                            None])
        steps += [{"op": "open", "field": f, "interp": kinds[f]}, first,
                  {"op": "commit", "field": f},
                  {"op": "open", "field": f, "interp": kinds[f], "vi": 1},
                  {"op": "append", "field": f, "val": rq.choice(pool), "vi": 1},
                  {"op": "commit", "field": f, "vi": 1},
                  {"op": "reopen", "field": f}] + ([second] if second else []) + \
                 [{"op": "commit", "field": f}]
    if rs.random() < 0.12:
        # references made in the middle of one session are the client's handles in the next
        f = rq.choice(listnames)
        pool = WSV if kinds[f] == "ws" else CMV
        steps += [{"op": "commit", "field": f}, {"op": "open", "field": f, "interp": kinds[f]},
                  rq.choice([{"op": "append", "field": f, "val": rq.choice(pool)},
                             {"op": "replace", "field": f, "which": 0, "val": rq.choice(pool)}]),
                  {"op": "ref_set", "field": f, "which": rq.choice([0, -1, 1]),
                   "val": rq.choice(pool), "held": False, "keep": True},
                  {"op": "commit", "field": f}, {"op": "reopen", "field": f},
                  {"op": "ref_set", "field": f, "which": rq.choice([0, -1, 1]),
                   "val": rq.choice(pool), "held": True},
                  {"op": "commit", "field": f}]
    if twins and rs.random() < 0.4:
        # the same edit in both paragraphs, then one of them edited once more
        f = rq.choice(twins)
        pool = WSV if kinds[f] == "ws" else CMV
        v1, v2 = rq.choice(pool), rq.choice(pool)
        a, b = rq.choice([(0, 1), (1, 0)])
        steps += [{"op": "commit", "field": f, "pi": a}, {"op": "commit", "field": f, "pi": b},
                  {"op": "open", "field": f, "interp": kinds[f], "pi": a},
                  {"op": "append", "field": f, "val": v1, "pi": a},
                  {"op": "commit", "field": f, "pi": a},
                  {"op": "open", "field": f, "interp": kinds[f], "pi": b},
                  {"op": "append", "field": f, "val": v1, "pi": b},
                  {"op": "commit", "field": f, "pi": b},
                  {"op": rq.choice(["reopen", "open"]), "field": f, "interp": kinds[f], "pi": b},
                  {"op": "append", "field": f, "val": v2, "pi": b},
                  {"op": "commit", "field": f, "pi": b}]
    # close everything at the end so that every change gets judged
    for f in listnames:
        for pi_ in ([0, 1] if f in twins else [0]):
            steps.append({"op": "commit", "field": f, "pi": pi_})
            if same_field:
                steps.append({"op": "commit", "field": f, "vi": 1, "pi": pi_})
    return {"world": {"doc": doc.to_json(), "kinds": kinds, "twins": sorted(set(twins)),
                      # one long-lived dict view per interpretation, or a new one per lookup
                      "reuse_dict_view": rs.random() < 0.4}, "trace": steps}


def describe(case):
    return {"document": Doc.from_json(case["world"]["doc"]).text(),
            "list_fields": case["world"]["kinds"], "trace": case["trace"][:30],
            "trace_len": len(case["trace"])}


def _find(doc, name, pi=0):
    if pi >= len(doc.paras):
        return None
    for j, s in enumerate(doc.paras[pi]):
        if s.name == name:
            return pi, j
    return None


def _iter_after_removal(V, k, slot_removed, out):
    """A value was removed by another route while a reference iterator is suspended.  The
    iterator stays usable only while the value it last yielded is still in the list (it
    walks the live chain from there); otherwise the client abandons it."""
    if V["it"] is None:
        return
    if not V["itlive"] or slot_removed == V["itcur"]:
        V["it"] = None
        return
    if k < V["itpos"]:
        V["itpos"] -= 1
    else:
        out.probe("later_value_removed_while_iterator_suspended")


def valid_value(v, kind):
    if v == "" or "\n" in v or v != v.strip():
        return False
    if kind == "ws":
        return len(v.split()) == 1
    return "," not in v


def execute(case):
    from debian._deb822_repro import (LIST_SPACE_SEPARATED_INTERPRETATION,
                                      LIST_COMMA_SEPARATED_INTERPRETATION)
    out = Outcome()
    log = EventLog()
    doc = Doc.from_json(case["world"]["doc"])
    kinds = case["world"]["kinds"]
    interp = {"ws": LIST_SPACE_SEPARATED_INTERPRETATION,
              "comma": LIST_COMMA_SEPARATED_INTERPRETATION}
    text = doc.text()
    f = parse(text)
    if f.dump() != text:
        raise Violation("initial-dump-differs", "parse", {"got": f.dump(), "want": text})
    sut_paras = list(f)
    twins = set(case["world"].get("twins") or [])
    para = sut_paras[0]
    views = {}     # field -> dict(view, model list, changed, held refs {slot id: ref}, slots)
    closed = {}    # view objects that were committed and may be entered again
    open_order = []
    inter = []
    committed_changed = 0
    gc_was = gc.isenabled()
    gc.disable()

    reuse = bool(case["world"].get("reuse_dict_view"))
    dviews = {}

    def dict_view(kind, P=0):
        if not reuse:
            return sut_paras[P].as_interpreted_dict_view(interp[kind])
        if (P, kind) not in dviews:
            dviews[(P, kind)] = sut_paras[P].as_interpreted_dict_view(interp[kind])
            out.probe("long_lived_dict_view")
        return dviews[(P, kind)]

    def fdump():
        try:
            return f.dump()
        except Exception as e:   # pylint: disable=broad-except
            raise Violation("document-no-longer-valid-after-commit", "dump",
                            {"error": repr(e)})

    def read_check(name, si, op, P=0):
        """A lookup through the dict view and the splitter both equal what the document says."""
        pi, j = _find(doc, name, P)
        want = split_list(doc.paras[pi][j].after_colon, kinds[name])
        v = dict_view(kinds[name], P)[name]
        got = list(v)
        if got != want:
            raise Violation("list-view-differs-from-splitting-the-field-text", op,
                            {"step": si, "field": name, "kind": kinds[name], "got": got,
                             "want": want, "field_text": doc.paras[pi][j].body})
        return want

    try:
        for name in sorted(kinds):
            for P_ in (0, 1):
                if P_ and name not in twins:
                    continue
                if _find(doc, name, P_) is not None:
                    read_check(name, -1, "read", P_)
                    if P_:
                        out.probe("same_named_list_field_in_second_paragraph")
        for si, st in enumerate(case["trace"]):
            op = st["op"]
            name = st.get("field")
            if op == "gc":
                gc.collect()
                out.probe("gc_step")
                inter.append(("gc",))
                out.steps += 1
                continue
            if op == "add_field":
                # another client adds a field to the paragraph while views are open
                before_doc = fdump()
                para[st["name"]] = st["val"]
                d = fdump()
                flat = [s_ for p_ in doc.paras for s_ in p_]
                p0 = doc.paras[0]
                if not p0[-1].body.endswith("\n"):
                    p0[-1].body += "\n"
                pre = doc.leading + "".join(s_.text for s_ in p0)
                post = (doc.seps[0] if doc.seps else "") + "".join(
                    "".join(s_.text for s_ in p_) + (doc.seps[i_ + 1] if i_ + 1 < len(doc.seps)
                                                      else "")
                    for i_, p_ in enumerate(doc.paras[1:])) + doc.trailing
                if not (d.startswith(pre) and d.endswith(post) and len(d) >= len(pre) + len(post)):
                    raise Violation("bytes-outside-the-edited-field-changed", op,
                                    {"step": si, "dump": d, "expected_prefix": pre,
                                     "expected_suffix": post})
                x = d[len(pre):len(d) - len(post)]
                mp = mini_parse_field(x)
                if mp is None or mp[0] != st["name"]:
                    raise Violation("document-no-longer-valid-after-commit", op,
                                    {"step": si, "dump": d, "new_field_text": x})
                p0.append(Seg("", x))
                out.probe("field_added_while_view_open" if views else "field_added")
                inter.append(("para", "add_field"))
                out.steps += 1
                continue
            if op == "move_field":
                tgt = _find(doc, st["target"])
                if tgt is None:
                    continue
                p0 = doc.paras[0]
                if not p0[-1].body.endswith("\n") and len(p0) > 1:
                    p0[-1].body += "\n"
                seg_ = p0.pop(tgt[1])
                if st["how"] == "order_last":
                    p0.append(seg_)
                else:
                    p0.insert(0, seg_)
                getattr(para, st["how"])(st["target"])
                d = fdump()
                want_d = doc.text()
                if d != want_d and not (not want_d.endswith("\n") and d == want_d + "\n"):
                    raise Violation("bytes-outside-the-edited-field-changed", op,
                                    {"step": si, "dump": d, "want": want_d})
                if d != want_d:
                    p0[-1].body += "\n"
                out.probe("field_moved_while_view_open" if views else "field_moved")
                inter.append(("para", st["how"]))
                out.steps += 1
                continue
            P = int(st.get("pi") or 0)
            if P and name not in twins:
                continue
            if name not in kinds or _find(doc, name, P) is None:
                continue
            kind = kinds[name]
            pi, j = _find(doc, name, P)
            seg = doc.paras[pi][j]
            vkey = (name if not P else name + "@1") + ("" if not st.get("vi") else "#2")
            if op == "reopen":
                # the client enters a view object it has already committed once; its list is
                # what it was at that commit (another writer may have changed the field since)
                if vkey in views or vkey not in closed:
                    continue
                V = closed.pop(vkey)
                V["v"].__enter__()
                V["it"] = None
                views[vkey] = V
                open_order.append(vkey)
                got = list(V["v"])
                if V.get("aborted"):
                    # the block was left through an exception with edits pending: the view
                    # either still shows them (then the next clean close must write them) or
                    # has gone back to the list it had when that block was entered
                    if got == V["m"]:
                        V["changed"] = True
                        out.probe("view_entered_again_after_abort_with_edits_pending")
                    elif got == V["m0"]:
                        V["m"] = list(got)
                        V["slots"] = list(range(len(got)))
                        V["refs"] = {}
                        V["next"] = len(got)
                        V["changed"] = False
                    V["aborted"] = False
                else:
                    V["changed"] = False
                if got != V["m"]:
                    raise Violation("open-view-differs-from-edited-list", op,
                                    {"step": si, "field": name, "view_lists": got,
                                     "want": V["m"]})
                out.probe("committed_view_entered_again")
                inter.append((name, "reopen"))
                out.steps += 1
                continue
            if op == "open":
                if vkey in views:
                    continue
                if any(k.split("#")[0] == vkey.split("#")[0] for k in views):
                    out.probe("two_views_of_the_same_field")
                want = read_check(name, si, "open", P)
                lv = dict_view(kind, P)[name]
                lv.__enter__()
                slots = list(range(len(want)))
                refs = dict(zip(slots, lv.iter_value_references()))
                views[vkey] = {"v": lv, "m": list(want), "slots": slots, "refs": refs,
                               "changed": False, "next": len(want), "it": None, "itpos": 0,
                               "itcur": None, "itlive": True, "nl": False, "m0": list(want)}
                open_order.append(vkey)
                lines = nl_lines(seg.after_colon)
                if any(l.startswith("\t") for l in lines[1:]):
                    out.probe("tab_continuation")
                if seg.after_colon.lstrip(" \t").startswith("#"):
                    out.probe("first_value_starts_with_hash")
                for a, b in zip(lines, lines[1:]):
                    if b.startswith("#") and a.rstrip().endswith(","):
                        out.probe("comma_before_comment_line")
                log.add(si, "open", name, want)
                inter.append((name, "open"))
                out.steps += 1
                continue
            if vkey not in views:
                continue
            V = views[vkey]
            lv, m = V["v"], V["m"]
            before_doc = fdump()
            where = {"step": si, "field": name, "kind": kind, "op": op,
                     "field_text": seg.body, "list_before": list(m)}
            if op in ("commit", "abort"):
                changed = V["changed"]
                try:
                    if op == "commit":
                        lv.__exit__(None, None, None)
                    else:
                        lv.__exit__(RuntimeError, RuntimeError("client gave up"), None)
                    exc = None
                except Exception as e:   # pylint: disable=broad-except
                    exc = repr(e)
                closed[vkey] = views[vkey]
                closed[vkey]["aborted"] = op == "abort" and changed
                if op == "commit" and changed:
                    closed[vkey]["nl"] = True     # the write-back ends the value on a newline
                if op == "commit":
                    closed[vkey]["m0"] = list(V["m"])
                del views[vkey]
                idx = open_order.index(vkey)
                if op == "commit" and changed and idx < len(open_order) - 1:
                    out.probe("two_views_committed_in_reverse_open_order")
                open_order.remove(vkey)
                log.add(si, op, name, changed, exc)
                inter.append((name, op))
                out.steps += 1
                if exc is not None:
                    where["error"] = exc
                    raise Violation("commit-raised", op, where)
                d = fdump()
                if op == "abort" or not changed:
                    out.probe("abort_discards_changes" if op == "abort" and changed
                              else "untouched_commit")
                    if d != before_doc:
                        where.update(before=before_doc, after=d)
                        raise Violation("untouched-or-aborted-view-changed-the-document",
                                        op, where)
                    read_check(name, si, op, P)
                    continue
                committed_changed += 1
                if not before_doc.endswith("\n") and pi == len(doc.paras) - 1 and \
                        j == len(doc.paras[pi]) - 1:
                    out.probe("commit_on_unterminated_last_field")
                # other bytes unchanged: prefix + X + suffix
                pre, post = [doc.leading], []
                cur = pre
                for a, p in enumerate(doc.paras):
                    for b, s in enumerate(p):
                        if a == pi and b == j:
                            pre.append(s.comment)
                            cur = post
                        else:
                            cur.append(s.text)
                    cur.append(doc.seps[a] if a < len(doc.paras) - 1 else "")
                cur.append(doc.trailing)
                prefix, suffix = "".join(pre), "".join(post)
                if not (d.startswith(prefix) and d.endswith(suffix)
                        and len(d) >= len(prefix) + len(suffix)):
                    where.update(dump=d, expected_prefix=prefix, expected_suffix=suffix)
                    raise Violation("bytes-outside-the-edited-field-changed", op, where)
                x = d[len(prefix):len(d) - len(suffix)]
                mp = mini_parse_field(x)
                if mp is None or mp[0] != name or (suffix != "" and not x.endswith("\n")):
                    where.update(dump=d, new_field_text=x)
                    raise Violation("document-no-longer-valid-after-commit", op, where)
                got = split_list(mp[1], kind)
                if got != m:
                    where.update(new_field_text=x, reads_as=got, want=m)
                    raise Violation("field-does-not-reparse-to-the-edited-list", op, where)
                seg.body = x
                try:
                    f2 = parse(d)
                except Exception as e:   # pylint: disable=broad-except
                    where.update(dump=d, error=repr(e))
                    raise Violation("document-no-longer-valid-after-commit", op, where)
                p2 = list(f2)[pi]
                got2 = list(p2.as_interpreted_dict_view(interp[kind])[name])
                if got2 != m:
                    where.update(new_field_text=x, fresh_view=got2, want=m)
                    raise Violation("field-does-not-reparse-to-the-edited-list", op, where)
                read_check(name, si, op, P)
                out.states.add(stable_hash(doc.to_json()))
                continue
            # ---- a suspended reference iterator (streaming edits through references)
            if op == "it_open":
                V["it"] = lv.iter_value_references()
                V["itpos"] = 0
                V["itcur"] = None
                V["itlive"] = True
                out.probe("reference_iterator_opened")
                inter.append((name, "it_open"))
                out.steps += 1
                continue
            if op == "it_next":
                if V["it"] is None:
                    continue
                pos = V["itpos"]
                try:
                    ref = next(V["it"])
                except StopIteration:
                    ref = None
                if pos >= len(m):
                    if ref is not None:
                        where.update(position=pos, extra_reference=ref.value)
                        raise Violation("reference-iterator-yields-beyond-the-list", op, where)
                    V["it"] = None
                    continue
                if ref is None:
                    where.update(position=pos, want=m[pos])
                    raise Violation("reference-iterator-ended-early", op, where)
                if ref.value != m[pos]:
                    where.update(position=pos, reference_value=ref.value, want=m[pos])
                    raise Violation("value-reference-reads-wrong-value", op, where)
                act = st.get("act", "none")
                V["itcur"] = V["slots"][pos]
                V["itlive"] = True
                if act == "set":
                    ref.value = st["val"]
                    m[pos] = st["val"]
                    V["changed"] = True
                    V["itpos"] = pos + 1
                elif act == "remove" and len(m) > 1:
                    ref.remove()
                    V["refs"].pop(V["slots"][pos], None)
                    del m[pos]
                    del V["slots"][pos]
                    V["changed"] = True
                    V["itlive"] = False      # the iterator now stands on a removed value
                    out.probe("streaming_removal_through_iterator")
                else:
                    V["itpos"] = pos + 1
                log.add(si, "it_next", name, pos, act)
                inter.append((name, "it_next:" + act))
                out.steps += 1
                got = list(lv)
                if got != m:
                    where.update(view_lists=got, want=m)
                    raise Violation("open-view-differs-from-edited-list", op, where)
                continue
            # ---- a reference whose value was removed through it: using it must be refused
            if op == "stale_ref":
                if not V.get("dead"):
                    continue
                ref = V["dead"][-1]
                try:
                    ref.value = st["val"]
                    exc = None
                except RuntimeError:
                    exc = "RuntimeError"
                except Exception as e:   # pylint: disable=broad-except
                    exc = type(e).__name__
                if exc is None:
                    raise Violation("stale-reference-accepted", op, where)
                out.probe("stale_reference_refused")
                log.add(si, "stale_ref", name, exc)
                inter.append((name, "stale_ref"))
                out.steps += 1
                if list(lv) != m or fdump() != before_doc:
                    where.update(view_lists=list(lv), want=m)
                    raise Violation("open-view-differs-from-edited-list", op, where)
                continue
            # ---- the client starts a new line before its next append
            if op == "append_nl":
                try:
                    lv.append_newline()
                    exc = None
                except ValueError:
                    exc = "ValueError"
                except Exception as e:   # pylint: disable=broad-except
                    where["error"] = repr(e)
                    raise Violation("edit-raised-unexpectedly", op, where)
                if V["nl"] and exc is None:
                    raise Violation("second-newline-in-a-row-accepted", op, where)
                if not V["nl"] and exc is not None:
                    raise Violation("edit-raised-unexpectedly", op, where)
                if exc is None:
                    V["nl"] = True
                    out.probe("append_on_a_new_line")
                log.add(si, "append_nl", name, exc)
                inter.append((name, "append_nl"))
                out.steps += 1
                if list(lv) != m or fdump() != before_doc:
                    where.update(view_lists=list(lv), want=m)
                    raise Violation("open-view-differs-from-edited-list", op, where)
                continue
            # ---- edits inside the transaction
            which = st.get("which", 0)
            val = st.get("val")
            if st.get("same") and m:
                val = m[which % len(m)]       # the very text that is already there
                out.probe("same_text_assigned_again")
            expect_err = False
            how = op
            if op == "bad":
                how = st.get("how", "append")
                expect_err = True
                if valid_value(val, kind):
                    expect_err = False
            if how in ("remove", "replace", "ref_set", "ref_remove"):
                if not m:
                    continue
                k = which % len(m)
            if how in ("remove", "ref_remove"):
                if len(m) <= 1:
                    continue
                if k == 0:
                    out.probe("remove_first_value")
                elif k == len(m) - 1:
                    out.probe("remove_last_value")
                else:
                    out.probe("remove_middle_value")
                if "#" in seg.after_colon.split("\n", 1)[-1] and \
                        any(l.startswith("#") for l in nl_lines(seg.after_colon, False)[1:]):
                    out.probe("remove_next_to_comment_line")
            try:
                if how == "append":
                    if seg.after_colon.rstrip().endswith(",") and not V["changed"]:
                        out.probe("append_after_trailing_separator")
                    lv.append(val)
                    if not expect_err:
                        V["nl"] = False
                        if V["it"] is not None and not V["itlive"]:
                            V["it"] = None     # iterator stands on a removed value: abandoned
                        m.append(val)
                        V["slots"].append(V["next"])
                        V["next"] += 1
                elif how == "remove":
                    # remove() takes the first instance of that value
                    k = m.index(m[k])
                    lv.remove(m[k])
                    slot_removed = V["slots"][k]
                    V["refs"].pop(V["slots"][k], None)
                    del m[k]
                    del V["slots"][k]
                    _iter_after_removal(V, k, slot_removed, out)
                elif how == "replace":
                    k = m.index(m[k])
                    lv.replace(m[k], val)
                    if not expect_err:
                        m[k] = val     # replace() is documented to keep references valid
                elif how in ("ref_set", "ref_remove"):
                    slot = V["slots"][k]
                    if st.get("held") and slot in V["refs"]:
                        ref = V["refs"][slot]
                        out.probe("held_reference_used")
                    else:
                        allrefs = list(lv.iter_value_references())
                        if len(allrefs) != len(m):
                            where.update(references=len(allrefs), values=len(m))
                            raise Violation("open-view-differs-from-edited-list", op, where)
                        ref = allrefs[k]
                        if st.get("keep"):
                            V["refs"] = dict(zip(V["slots"], allrefs))
                            out.probe("references_made_mid_session_kept")
                    if ref.value != m[k]:
                        where.update(reference_value=ref.value, want=m[k])
                        raise Violation("value-reference-reads-wrong-value", op, where)
                    if how == "ref_set":
                        ref.value = val
                        if not expect_err:
                            m[k] = val
                    else:
                        ref.remove()
                        V.setdefault("dead", []).append(ref)
                        slot_removed = slot
                        V["refs"].pop(slot, None)
                        del m[k]
                        del V["slots"][k]
                        _iter_after_removal(V, k, slot_removed, out)
                exc = None
            except ValueError as e:
                exc = "ValueError"
            except Exception as e:   # pylint: disable=broad-except
                where["error"] = repr(e)
                raise Violation("edit-raised-unexpectedly", op, where)
            log.add(si, op, how, name, which, val, exc)
            inter.append((name, how if op != "bad" else "bad:" + how))
            out.steps += 1
            if expect_err:
                out.probe("refused_edit")
                if exc is None:
                    where["value"] = val
                    raise Violation("invalid-value-accepted-by-list-view", op, where)
            elif exc is not None:
                where["value"] = val
                raise Violation("edit-raised-unexpectedly", op, where)
            else:
                V["changed"] = True
            got = list(lv)
            if got != m:
                where.update(view_lists=got, want=m, value=val)
                raise Violation("open-view-differs-from-edited-list", op, where)
            if fdump() != before_doc:
                where.update(before=before_doc, after=fdump())
                raise Violation("document-changed-before-commit", op, where)
    finally:
        if gc_was:
            gc.enable()
    out.digest = log.digest()
    out.interleaving = stable_hash(inter)
    out.nontrivial = committed_changed > 0
    return out


def shrink_candidates(case):
    doc = case["world"]["doc"]
    if len(doc["paras"]) > 1:
        c = copy.deepcopy(case)
        del c["world"]["doc"]["paras"][1:]
        c["world"]["doc"]["seps"] = []
        yield c
    for j in range(len(doc["paras"][0])):
        if len(doc["paras"][0]) > 1:
            c = copy.deepcopy(case)
            del c["world"]["doc"]["paras"][0][j]
            yield c
    for key in ("leading", "trailing"):
        if doc[key]:
            c = copy.deepcopy(case)
            c["world"]["doc"][key] = ""
            yield c
    for j, (comment, body) in enumerate(doc["paras"][0]):
        if comment:
            c = copy.deepcopy(case)
            c["world"]["doc"]["paras"][0][j][0] = ""
            yield c
        lines = body.split("\n")
        # drop one line of a multi-line field, or one character
        if len(lines) > 2:
            for k in range(1, len(lines) - (1 if body.endswith("\n") else 0)):
                c = copy.deepcopy(case)
                c["world"]["doc"]["paras"][0][j][1] = "\n".join(lines[:k] + lines[k + 1:])
                yield c
        name_end = body.index(":") + 1
        for k in range(name_end, len(body)):
            if body[k] != "\n":
                c = copy.deepcopy(case)
                c["world"]["doc"]["paras"][0][j][1] = body[:k] + body[k + 1:]
                yield c
