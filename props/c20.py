"""C20 -- the debtags database keeps its two indexes mutually inverse.

Simulated: all live DB handles -- the original (read from a line stream, or empty) and
everything derived from it during the run (copy, reverse, reverse_copy, filter_*[ _copy],
choose_packages[_copy], facet_collection) -- receiving inserts and derivations in a seeded
order.  Derived DBs share set objects with their source by design, so an insert through one
handle can break another: that is what the schedule explores.  After every step every live
handle is compared with a reference relation.
"""
import copy

from simkit.core import EventLog, Outcome, Violation, stream_rng, stable_hash, open_findings

ID = "C20"
LEVEL = "exploration"
TIERS = {"quick": {"runs": 40000, "wall": 120}, "thorough": {"runs": 600000, "wall": 1500}}
HASHSEED_RUNS = {"quick": 600, "thorough": 6000}
RULE = ("world = seeded tag collection text (0..8 packages with distinct names of length "
        "1..8, tags facet::tag or single characters, lines with several packages, packages "
        "without tags) read through a line stream with or without a tag filter, or an empty "
        "DB; trace = seeded history (<= 40 steps, <= 6 live handles) of insert / copy / "
        "reverse / reverse_copy / filter_packages[_copy] / filter_packages_tags[_copy] / "
        "filter_tags[_copy] / choose_packages[_copy] / facet_collection / drop-handle on any "
        "live handle; every live handle is checked after every step; an evaluation is one "
        "run; distinct = distinct (handle, op) sequence hash; non-trivial = at least one "
        "insert happened while two or more handles were live"
        '; later additions: re-read on a live handle (also with a filter that consults the same DB), one-shot iterators as selections, qwrite/qread, a derivation asked for again later in the history')
REAL = ["debian.debtags.DB (read, insert, all derivations, all queries), parse_tags, "
        "read_tag_database_both_ways, reverse"]
STUB = ["the input line stream handed to DB.read (simulator-owned list / iterator)"]
ASSUMPTIONS = [
    "package names are distinct within the input collection and contain no ', ' and no ': ' "
    "(the property's domain)",
    "a tag (or, through a reversed handle, a package) whose last partner was removed by a "
    "re-insert may either stay listed with an empty set or disappear; both are accepted",
    "derivations documented as *sharing* tag sets are expected to behave as independent "
    "snapshots; when an in-place mutation through another handle of the same sharing family "
    "shows through exactly as object-level aliasing predicts, that is the open known finding "
    "C20-sharing-derivative-mutation, not a new violation",
    "choose_packages_copy may raise KeyError for an unknown package or skip it",
]
PROBES = ["insert_into_copy_then_query_original", "insert_through_reverse_view",
          "insert_fresh_tag_multichar_name", "filter_to_empty", "reinsert_with_fewer_tags",
          "three_handle_chain", "insert_into_sharing_family", "facet_collection_used",
          "read_with_tag_filter", "package_without_tags", "line_with_several_packages",
          "read_again_on_live_handle", "selection_given_as_one_shot_iterator",
          "reread_with_filter_consulting_the_same_db"]

Q_CHARS = "C20-insert-fresh-tag-stores-characters"
Q_SHARE = "C20-sharing-derivative-mutation"

SHARING = ("filter_packages", "filter_packages_tags", "filter_tags", "choose_packages")
COPYING = ("copy", "reverse_copy", "filter_packages_copy", "filter_packages_tags_copy",
           "filter_tags_copy", "choose_packages_copy", "facet_collection", "qwrite_qread")
DERIV = SHARING + COPYING + ("reverse",)


def facet(t):
    """What re.sub(r'^([^:]+).+', r'\\1', t) yields, re-derived by hand."""
    k = 0
    while k < len(t) and t[k] != ":":
        k += 1
    if k == 0:
        return t
    if k == len(t):
        return t[:-1] if len(t) >= 2 else t
    return t[:k]


def pred_fn(p):
    """Deterministic, serialisable predicates."""
    kind = p["k"]
    if kind == "mod":
        return lambda s: (sum(map(ord, s)) % p["m"]) == p["r"]
    if kind == "in":
        st = set(p["set"])
        return lambda s: s in st
    if kind == "all":
        return lambda s: True
    if kind == "none":
        return lambda s: False
    raise ValueError(kind)


def pt_pred_fn(p):
    """Predicates on (package, tags)."""
    kind = p["k"]
    if kind == "has":
        return lambda pt: p["tag"] in pt[1]
    if kind == "hasnot":
        return lambda pt: p["tag"] not in pt[1]
    if kind == "ntags":
        return lambda pt: len(pt[1]) >= p["n"]
    f = pred_fn(p)
    return lambda pt: f(pt[0])


class MDB(object):
    """Reference database: two dicts of sets.  share=True mirrors the documented aliasing
    of the 'sharing' derivations at the level of set objects; share=False makes every
    derivation an independent snapshot (the ideal)."""

    def __init__(self, share):
        self.share = share
        self.A = {}
        self.B = {}
        self.optA = set()
        self.optB = set()

    @staticmethod
    def _rev(d):
        r = {}
        for k, vs in d.items():
            for v in vs:
                r.setdefault(v, set()).add(k)
        return r

    def side(self, flip):
        return (self.B, self.A, self.optB, self.optA) if flip else \
               (self.A, self.B, self.optA, self.optB)

    def insert(self, flip, x, ys):
        A, B, optA, optB = self.side(flip)
        old = A.get(x, ())
        for t in list(old):
            if t not in ys and t in B:
                B[t].discard(x)
                if not B[t]:
                    optB.add(t)
        A[x] = set(ys)
        optA.discard(x)
        for y in ys:
            if y in B:
                B[y].add(x)
            else:
                B[y] = {x}
            optB.discard(y)

    def derive(self, flip, op, arg):
        A, B, optA, optB = self.side(flip)
        n = MDB(self.share)
        share = self.share and op in SHARING
        cp = (lambda s: s) if share else set
        if op in ("copy", "qwrite_qread"):
            n.A = {k: set(v) for k, v in A.items()}
            n.B = {k: set(v) for k, v in B.items()}
            n.optA, n.optB = set(optA), set(optB)
        elif op == "reverse_copy":
            n.A = {k: set(v) for k, v in B.items()}
            n.B = {k: set(v) for k, v in A.items()}
            n.optA, n.optB = set(optB), set(optA)
        elif op in ("filter_packages", "filter_packages_copy"):
            f = pred_fn(arg)
            n.A = {k: cp(v) for k, v in A.items() if f(k)}
            n.B = self._rev(n.A)
            n.optA = set(optA) & set(n.A)
        elif op in ("filter_packages_tags", "filter_packages_tags_copy"):
            f = pt_pred_fn(arg)
            n.A = {k: cp(v) for k, v in A.items() if f((k, v))}
            n.B = self._rev(n.A)
            n.optA = set(optA) & set(n.A)
        elif op in ("filter_tags", "filter_tags_copy"):
            f = pred_fn(arg)
            n.B = {k: cp(v) for k, v in B.items() if f(k)}
            n.A = self._rev(n.B)
            n.optB = set(optB) & set(n.B)
        elif op in ("choose_packages", "choose_packages_copy"):
            n.A = {k: cp(A[k]) for k in arg["set"] if k in A}
            n.B = self._rev(n.A)
            n.optA = set(optA) & set(n.A)
        elif op == "facet_collection":
            for k, v in A.items():
                n.insert(False, k, {facet(t) for t in v})
        else:
            raise ValueError(op)
        return n


def _cmp_side(obs, want, opt):
    """obs/want: dict key->set.  Keys in opt with an empty wanted set are optional."""
    for k, v in want.items():
        if k in obs:
            if obs[k] != v:
                return "value of %r is %r, expected %r" % (k, sorted(obs[k]), sorted(v))
        elif not (k in opt and not v):
            return "key %r missing (expected %r)" % (k, sorted(v))
    for k in obs:
        if k not in want:
            return "unexpected key %r -> %r" % (k, sorted(obs[k]))
    return None


def compare(obs_db, obs_rdb, m, flip):
    A, B, optA, optB = m.side(flip)
    return _cmp_side(obs_db, A, optA) or _cmp_side(obs_rdb, B, optB)


# --------------------------------------------------------------------------- generation

PK1 = list("abcdefgh")
TG1 = list("pqrstu")
PKM = ["ab", "libfoo", "x11-apps", "g++", "a.b", "zsh", "py3", "longname", "libc6:amd64", "q:r"]
TGM = ["devel::lang", "devel::lib", "use::edit", "role::program", "ui::x11", "zz", "role::data", "x::100%s"]


def _gen_pred(rng, universe):
    r = rng.random()
    if r < 0.45:
        m = rng.choice([2, 2, 3])
        return {"k": "mod", "m": m, "r": rng.randrange(m)}
    if r < 0.8:
        u = sorted(universe)
        return {"k": "in", "set": sorted(rng.sample(u, rng.randint(0, len(u)))) if u else []}
    return {"k": rng.choice(["all", "none"])}


def generate(seed, run, tier):
    rw = stream_rng(seed, ID, run, "world")
    rs = stream_rng(seed, ID, run, "swarm")
    rq = stream_rng(seed, ID, run, "sched")
    multi = rs.random() < 0.4
    avoid = rs.random() < 0.6
    PK, TG = (PKM, TGM) if multi else (PK1, TG1)
    # world: tag collection text
    lines = []
    if rs.random() < 0.8:
        pk = list(PK)
        rw.shuffle(pk)
        pk = pk[:rs.choice([0, 1, 2, 4, 6, 8])]
        while pk:
            grp = [pk.pop()]
            while pk and rw.random() < 0.2:
                grp.append(pk.pop())
            tags = sorted(set(rw.choice(TG) for _ in range(rw.choice([0, 1, 2, 3, 4]))))
            if tags:
                lines.append(", ".join(grp) + ": " + ", ".join(tags))
            else:
                lines.append(", ".join(grp) + rw.choice(["", ":"]))
    world = {"lines": lines, "stream": rs.choice(["list", "iter", "nl-list"]),
             "tag_filter": _gen_pred(rw, TG) if rs.random() < 0.2 else None,
             "empty_db": not lines and rs.random() < 0.5}
    # trace, generated against the ideal + family bookkeeping so that most ops are meaningful
    nsteps = rs.choice([4, 10, 20, 40] if tier == "quick" else [4, 10, 20, 40, 80])
    w_ins = rs.choice([2, 4, 8])
    w_der = rs.choice([1, 2, 4])
    w_drop = rs.choice([0, 1])
    w_reread = rs.choice([0, 0, 1])
    w_again = rs.choice([0, 1, 2])     # a derivation asked for once more, later in the history
    sim = _Sim(world)
    steps = []
    for _ in range(nsteps):
        nh = len(sim.handles)
        if nh == 0:
            break
        h = rq.randrange(nh)
        kind = rq.choice(["insert"] * w_ins + ["derive"] * w_der + ["drop"] * w_drop +
                         ["reread"] * w_reread + ["again"] * w_again)
        if kind == "again":
            earlier = [x for x in steps if x["op"] not in ("insert", "drop", "reread")
                       and x["h"] < nh]
            if not earlier or nh >= 6:
                kind = "insert"
            else:
                st = dict(rq.choice(earlier[-3:]))
                st["again"] = True
                steps.append(st)
                sim.apply(st)
                continue
        if kind == "drop" and nh <= 1:
            kind = "insert"
        if kind == "derive" and nh >= 6:
            kind = "insert"
        if kind == "insert":
            if avoid:
                ok = [i for i in range(nh) if sim.family_size(i) == 1]
                if not ok:
                    continue
                h = rq.choice(ok)
            flip = sim.handles[h][1]
            left, right = (TG, PK) if flip else (PK, TG)
            st = {"h": h, "op": "insert", "pkg": rq.choice(left),
                  "tags": sorted(set(rq.choice(right) for _ in range(rq.choice([0, 1, 1, 2, 3]))))}
        elif kind == "derive":
            op = rq.choice(DERIV + ("reverse", "reverse"))
            flip = sim.handles[h][1]
            left, right = (TG, PK) if flip else (PK, TG)
            st = {"h": h, "op": op}
            if op.startswith("filter_packages_tags"):
                r = rq.random()
                st["arg"] = ({"k": "has", "tag": rq.choice(right)} if r < 0.4 else
                             {"k": "hasnot", "tag": rq.choice(right)} if r < 0.6 else
                             {"k": "ntags", "n": rq.choice([0, 1, 2])} if r < 0.8 else
                             _gen_pred(rq, left))
            elif op.startswith("filter_packages"):
                st["arg"] = _gen_pred(rq, left)
            elif op.startswith("filter_tags"):
                st["arg"] = _gen_pred(rq, right)
            elif op.startswith("choose_packages"):
                st["arg"] = {"set": sorted(rq.sample(left, rq.randint(0, 4))),
                             "oneshot": rq.random() < 0.4}
        elif kind == "reread":
            pk = list(PK)
            rq.shuffle(pk)
            ls = []
            for p_ in pk[:rq.choice([0, 1, 2, 4])]:
                tg = sorted(set(rq.choice(TG) for _ in range(rq.choice([0, 1, 2]))))
                ls.append(p_ + (": " + ", ".join(tg) if tg else ""))
            st = {"h": h, "op": "reread", "lines": ls, "filter_self": rq.random() < 0.4}
        else:
            st = {"h": h, "op": "drop"}
        steps.append(st)
        sim.apply(st)
    return {"world": world, "trace": steps}


def describe(case):
    return {"collection_lines": case["world"]["lines"], "stream": case["world"]["stream"],
            "tag_filter": case["world"]["tag_filter"], "trace": case["trace"][:30],
            "trace_len": len(case["trace"])}


def _split_line(line):
    """packages / tags of one collection line: the separator is the first colon that is
    followed by a blank, or a colon at the very end (package names may contain colons,
    e.g. libc6:amd64)"""
    i = line.find(": ")
    if i >= 0:
        return line[:i], line[i + 2:]
    if line.endswith(":"):
        return line[:-1], ""
    return line, ""


class _Sim(object):
    """Model-side bookkeeping shared by generator and executor: stores (ideal and aliasing
    universe), families, handles = (store index, flip)."""

    def __init__(self, world):
        ideal, alias = MDB(False), MDB(True)
        if not world.get("empty_db"):
            tf = pred_fn(world["tag_filter"]) if world.get("tag_filter") else None
            for line in world["lines"]:
                left, right = _split_line(line)
                pkgs = [p for p in left.split(", ") if p]
                tags = set(t.strip() for t in right.split(", ") if t.strip())
                if tf:
                    tags = set(t for t in tags if tf(t))
                for m in (ideal, alias):
                    for p in pkgs:
                        m.insert(False, p, tags)
        self.ideal = [ideal]
        self.alias = [alias]
        self.family = [0]
        self.handles = [(0, False)]
        self.dead = set()

    def family_size(self, h):
        s = self.handles[h][0]
        live = set(x[0] for x in self.handles)
        return sum(1 for t in live if self.family[t] == self.family[s])

    def apply(self, st):
        """Apply a step to the model.  Returns (kind, info) or None if inapplicable."""
        if not self.handles:
            return None
        h = st["h"] % len(self.handles)
        s, flip = self.handles[h]
        op = st["op"]
        if op == "insert":
            for m in (self.ideal[s], self.alias[s]):
                m.insert(flip, st["pkg"], set(st["tags"]))
            return ("insert", h)
        if op == "drop":
            if len(self.handles) <= 1:
                return None
            del self.handles[h]
            return ("drop", h)
        if op == "reverse":
            if len(self.handles) >= 6:
                return None
            self.handles.append((s, not flip))
            return ("derive", h)
        if op in DERIV:
            if len(self.handles) >= 6:
                return None
            self.ideal.append(self.ideal[s].derive(flip, op, st.get("arg")))
            self.alias.append(self.alias[s].derive(flip, op, st.get("arg")))
            self.family.append(self.family[s] if op in SHARING else len(self.family))
            self.handles.append((len(self.ideal) - 1, False))
            return ("derive", h)
        if op == "reread":
            # DB.read() on a handle that is already in use: this object now holds the new
            # collection; views derived earlier keep what they had
            w2 = {"lines": st["lines"], "tag_filter": None, "empty_db": False}
            if st.get("filter_self"):
                # tag_filter = this handle's own has_tag: it sees the collection as it was
                _, B0, _, optB0 = self.ideal[s].side(flip)
                if optB0:
                    return None           # presence of emptied tags is unspecified
                w2["tag_filter"] = {"k": "in", "set": sorted(B0)}
            fresh = _Sim(w2)
            self.ideal.append(fresh.ideal[0])
            self.alias.append(fresh.alias[0])
            self.family.append(len(self.family))
            self.handles[h] = (len(self.ideal) - 1, False)
            return ("reread", h)
        return None


# --------------------------------------------------------------------------- execution

def _stream(world):
    lines = world["lines"]
    kind = world.get("stream", "list")
    if kind == "nl-list":
        return [l + "\n" for l in lines]
    if kind == "iter":
        return iter([l + "\n" for l in lines])
    return list(lines)


def _observe(db):
    """Everything the property names, through the public query methods; sorted."""
    d = {p: set(ts) for p, ts in db.iter_packages_tags()}
    r = {t: set(ps) for t, ps in db.iter_tags_packages()}
    problems = []
    if set(db.iter_packages()) != set(d) or db.package_count() != len(d):
        problems.append("iter_packages/package_count disagree with iter_packages_tags")
    if set(db.iter_tags()) != set(r) or db.tag_count() != len(r):
        problems.append("iter_tags/tag_count disagree with iter_tags_packages")
    for p, ts in d.items():
        if db.tags_of_package(p) != ts or not db.has_package(p):
            problems.append("tags_of_package/has_package(%r) disagree with iteration" % p)
    for t, ps in r.items():
        if db.packages_of_tag(t) != ps or db.card(t) != len(ps) or not db.has_tag(t):
            problems.append("packages_of_tag/card/has_tag(%r) disagree with iteration" % t)
    if db.tags_of_package("no such package") != set() or db.card("no::such") != 0 or \
            db.packages_of_tag("no::such") != set() or db.has_package("no such package"):
        problems.append("query for unknown key not empty")
    return d, r, problems


def _inverse_problem(d, r):
    for p, ts in d.items():
        for t in ts:
            if t not in r or p not in r[t]:
                return "tag %r listed for package %r but package not listed under tag" % (t, p)
    for t, ps in r.items():
        for p in ps:
            if p not in d or t not in d[p]:
                return "package %r listed under tag %r but tag not listed for package" % (p, t)
    return None


def execute(case):
    from debian import debtags
    out = Outcome()
    log = EventLog()
    world = case["world"]
    opens = open_findings(ID)
    sim = _Sim(world)
    db0 = debtags.DB()
    if not world.get("empty_db"):
        tf = pred_fn(world["tag_filter"]) if world.get("tag_filter") else None
        if tf:
            out.probe("read_with_tag_filter")
        db0.read(_stream(world), tf)
    if any(_split_line(l)[1] == "" for l in world["lines"]):
        out.probe("package_without_tags")
    if any(", " in _split_line(l)[0] for l in world["lines"]):
        out.probe("line_with_several_packages")
    sut = [db0]                 # parallel to sim.handles
    tainted = set()             # store indices excluded after a known-finding hit
    inter = []
    inserts_with_many = 0

    def check(si, op, mutated_store):
        """Compare every live, untainted handle.  Returns 'stop' after a chars-quirk hit."""
        seen = set()
        for hi, (s, flip) in enumerate(sim.handles):
            if s in tainted:
                continue
            d, r, problems = _observe(sut[hi])
            key = (s, flip)
            if key in seen:
                pass
            seen.add(key)
            where = {"step": si, "handle": hi, "store": s, "reversed_view": flip}
            if problems:
                where["problems"] = problems
                raise Violation("query-methods-disagree-with-each-other", op, where)
            diff = compare(d, r, sim.ideal[s], flip)
            if diff is None:
                inv = _inverse_problem(d, r)
                if inv:     # cannot happen when equal to the model, kept as a guard
                    where["inverse"] = inv
                    raise Violation("indexes-not-mutually-inverse", op, where)
                continue
            where["difference"] = diff
            where["inverse_check"] = _inverse_problem(d, r)
            where["observed_db"] = {k: sorted(v) for k, v in sorted(d.items())}
            where["observed_rdb"] = {k: sorted(v) for k, v in sorted(r.items())}
            # -- open finding: object-level aliasing of a sharing family
            if (Q_SHARE in opens and mutated_store is not None and s != mutated_store
                    and sim.family[s] == sim.family[mutated_store]
                    and compare(d, r, sim.alias[s], flip) is None):
                out.known.append(Q_SHARE)
                tainted.add(s)
                continue
            raise Violation("handle-differs-from-reference-relation", op, where)
        return None

    def chars_quirk(si, st, hi):
        """insert under a fresh tag with a multi-character name: accept set(name)."""
        s, flip = sim.handles[hi]
        d, r, problems = _observe(sut[hi])
        if problems:
            return False
        A, B, optA, optB = sim.ideal[s].side(flip)
        want_r = {k: set(v) for k, v in B.items()}
        x = st["pkg"]
        fresh = [y for y in st["tags"] if want_r.get(y) == {x}]
        if len(x) <= 1 or not fresh:
            return False
        hit = False
        for y in fresh:
            if r.get(y) == set(x):
                want_r[y] = set(x)
                hit = True
        if not hit:
            return False
        return _cmp_side(d, A, optA) is None and _cmp_side(r, want_r, optB) is None

    check(-1, "read", None)
    for si, st in enumerate(case["trace"]):
        if not sim.handles:
            break
        hi = st["h"] % len(sim.handles)
        s, flip = sim.handles[hi]
        op = st["op"]
        if s in tainted and op != "drop":
            continue
        nlive = len(set(x[0] for x in sim.handles))
        famsize = sim.family_size(hi)
        fresh_multi = False
        if op == "insert":
            A, B, _, _ = sim.ideal[s].side(flip)
            fresh_multi = len(st["pkg"]) > 1 and any(y not in B for y in st["tags"])
            if st["pkg"] in A and not set(A[st["pkg"]]) <= set(st["tags"]):
                out.probe("reinsert_with_fewer_tags")
        res = sim.apply(st)
        if res is None:
            continue
        out.steps += 1
        inter.append((hi, op))
        if op == "insert":
            sut[hi].insert(st["pkg"], set(st["tags"]))
            log.add(si, hi, "insert", st["pkg"], st["tags"])
            if flip:
                out.probe("insert_through_reverse_view")
            if len(sim.handles) >= 2:
                inserts_with_many += 1
            if len(sim.handles) >= 3:
                out.probe("three_handle_chain")
            if famsize > 1:
                out.probe("insert_into_sharing_family")
            if s != 0 and any(x[0] == 0 for x in sim.handles):
                out.probe("insert_into_copy_then_query_original")
            if fresh_multi:
                out.probe("insert_fresh_tag_multichar_name")
                if Q_CHARS in opens and chars_quirk(si, st, hi):
                    out.known.append(Q_CHARS)
                    log.add(si, "known", Q_CHARS)
                    break
            check(si, "insert", s)
        elif op == "reread":
            if st.get("filter_self"):
                sut[hi].read(list(st["lines"]), sut[hi].has_tag)
                out.probe("reread_with_filter_consulting_the_same_db")
            else:
                sut[hi].read(list(st["lines"]))
            log.add(si, hi, "reread", st["lines"])
            out.probe("read_again_on_live_handle")
            check(si, "reread", None)
        elif op == "drop":
            del sut[hi]
            log.add(si, hi, "drop")
            check(si, "drop", None)
        else:
            src = sut[hi]
            arg = st.get("arg")
            try:
                if op == "qwrite_qread":
                    import io
                    buf = io.BytesIO()
                    src.qwrite(buf)
                    buf.seek(0)
                    new = debtags.DB()
                    new.qread(buf)
                elif op in ("copy", "reverse", "reverse_copy", "facet_collection"):
                    new = getattr(src, op)()
                elif op.startswith("filter_packages_tags"):
                    new = getattr(src, op)(pt_pred_fn(arg))
                elif op.startswith("filter_"):
                    new = getattr(src, op)(pred_fn(arg))
                else:
                    sel = list(arg["set"])
                    if arg.get("oneshot"):
                        sel = iter(sel)           # a single-pass iterable
                        out.probe("selection_given_as_one_shot_iterator")
                    new = getattr(src, op)(sel)
            except KeyError:
                A, _, _, _ = sim.ideal[s].side(flip)
                if op == "choose_packages_copy" and any(k not in A for k in arg["set"]):
                    # documented-domain miss: roll the model back, nothing was created
                    sim.handles.pop()
                    sim.ideal.pop()
                    sim.alias.pop()
                    sim.family.pop()
                    log.add(si, hi, op, "KeyError")
                    continue
                raise
            sut.append(new)
            log.add(si, hi, op, arg)
            if op == "facet_collection":
                out.probe("facet_collection_used")
                ns = sim.handles[-1][0]
                A, B, _, _ = sim.ideal[s].side(flip)
                if Q_CHARS in opens and any(len(k) > 1 and v for k, v in A.items()):
                    # facet_collection() builds its result with insert(): the same quirk
                    d, r, problems = _observe(new)
                    nA, nB, _, _ = sim.ideal[ns].side(False)
                    want_r = {k: set(v) for k, v in nB.items()}
                    hit = False
                    for t in list(want_r):
                        if r.get(t) != want_r[t]:
                            # accept: the first package inserted under t contributed its
                            # characters instead of itself
                            for first in sorted(nB[t]):
                                alt = (nB[t] - {first}) | set(first)
                                if r.get(t) == alt and len(first) > 1:
                                    want_r[t] = alt
                                    hit = True
                                    break
                    if hit and not problems and _cmp_side(d, nA, set()) is None and \
                            _cmp_side(r, want_r, set()) is None:
                        out.known.append(Q_CHARS)
                        log.add(si, "known", Q_CHARS)
                        break
            ns = sim.handles[-1][0]
            if not sim.ideal[ns].A and not sim.ideal[ns].B and (sim.ideal[s].A or
                                                                 sim.ideal[s].B):
                out.probe("filter_to_empty")
            check(si, op, None)
        out.states.add(stable_hash([[sorted((k, sorted(v)) for k, v in m.A.items()),
                                     sorted((k, sorted(v)) for k, v in m.B.items())]
                                    for m in sim.ideal]))
    out.digest = log.digest()
    out.interleaving = stable_hash(inter)
    out.nontrivial = inserts_with_many > 0
    return out


def shrink_candidates(case):
    w = case["world"]
    for i in range(len(w["lines"])):
        c = copy.deepcopy(case)
        del c["world"]["lines"][i]
        yield c
    if w.get("tag_filter"):
        c = copy.deepcopy(case)
        c["world"]["tag_filter"] = None
        yield c
    if w.get("stream") != "list":
        c = copy.deepcopy(case)
        c["world"]["stream"] = "list"
        yield c
    for i, l in enumerate(w["lines"]):
        if _split_line(l)[1]:
            left, right = _split_line(l)
            tags = [t.strip() for t in right.split(", ") if t.strip()]
            for j in range(len(tags)):
                c = copy.deepcopy(case)
                rest = tags[:j] + tags[j + 1:]
                c["world"]["lines"][i] = left + (": " + ", ".join(rest) if rest else "")
                yield c
    for i, st in enumerate(case["trace"]):
        if st["op"] == "insert" and len(st["tags"]) > 0:
            for j in range(len(st["tags"])):
                c = copy.deepcopy(case)
                del c["trace"][i]["tags"][j]
                yield c
        if st.get("h", 0) > 0:
            c = copy.deepcopy(case)
            c["trace"][i]["h"] = 0
            yield c
